// Throwaway prototype of the C01 reference model (design-phase exploration only).
use chrono::{Datelike, Duration, NaiveDate, Weekday};
use opening_hours_syntax::rules as rl;
use opening_hours_syntax::rules::day as ds;
use opening_hours_syntax::rules::time as ts;
use std::collections::BTreeSet;

#[derive(Clone, Copy, PartialEq, Eq, Debug)]
pub enum K { C, O, U }

pub struct Ctx { pub ph: BTreeSet<NaiveDate>, pub sh: BTreeSet<NaiveDate> }

fn leap(y: i32) -> bool { (y % 4 == 0 && y % 100 != 0) || y % 400 == 0 }
fn dim(y: i32, m: u32) -> u32 { match m { 1|3|5|7|8|10|12 => 31, 4|6|9|11 => 30, _ => if leap(y) {29} else {28} } }
fn ymd(y: i32, m: u32, d: u32) -> Option<NaiveDate> { if d >= 1 && d <= dim(y, m) { NaiveDate::from_ymd_opt(y, m, d) } else { None } }

// Oudin (1940) Easter
pub fn easter(y: i32) -> NaiveDate {
    let g = y % 19; let c = y / 100;
    let h = (c - c / 4 - (8 * c + 13) / 25 + 19 * g + 15) % 30;
    let i = h - (h / 28) * (1 - (29 / (h + 1)) * ((21 - g) / 11));
    let j = (y + y / 4 + i + 2 - c + c / 4) % 7;
    let l = i - j;
    let m = 3 + (l + 40) / 44;
    let d = l + 28 - 31 * (m / 4);
    NaiveDate::from_ymd_opt(y, m as u32, d as u32).unwrap()
}

fn wd_idx(w: Weekday) -> i64 { w.num_days_from_monday() as i64 }

fn apply_off(mut d: NaiveDate, off: &ds::DateOffset) -> NaiveDate {
    d = d + Duration::days(off.day_offset);
    match off.wday_offset {
        ds::WeekDayOffset::None => d,
        ds::WeekDayOffset::Next(t) => { let k = (wd_idx(t) - wd_idx(d.weekday())).rem_euclid(7); d + Duration::days(k) }
        ds::WeekDayOffset::Prev(t) => { let k = (wd_idx(d.weekday()) - wd_idx(t)).rem_euclid(7); d - Duration::days(k) }
    }
}

#[derive(Clone, Copy)] enum Clamp { Exact, After, Before }
fn resolve(date: &ds::Date, y: i32, clamp: Clamp) -> Option<NaiveDate> {
    match date {
        ds::Date::Easter { year } => { if let Some(y0) = year { if *y0 as i32 != y { return None; } } Some(easter(y)) }
        ds::Date::Fixed { year, month, day } => {
            if let Some(y0) = year { if *y0 as i32 != y { return None; } }
            let m = *month as u32; let d = *day as u32;
            match ymd(y, m, d) { Some(x) => Some(x), None => match clamp {
                Clamp::Exact => None,
                Clamp::After => Some(if m == 12 { NaiveDate::from_ymd_opt(y + 1, 1, 1).unwrap() } else { NaiveDate::from_ymd_opt(y, m + 1, 1).unwrap() }),
                Clamp::Before => NaiveDate::from_ymd_opt(y, m, dim(y, m)),
            } }
        }
    }
}
fn date_year(d: &ds::Date) -> Option<i32> { match d { ds::Date::Easter { year } | ds::Date::Fixed { year, .. } => year.map(|y| y as i32) } }

fn monthday_match(r: &ds::MonthdayRange, d: NaiveDate) -> bool {
    let y = d.year();
    match r {
        ds::MonthdayRange::Month { range, year } => {
            if let Some(y0) = year { if *y0 as i32 != y { return false; } }
            let (a, b) = (*range.start() as u32, *range.end() as u32); let m = d.month();
            if a <= b { a <= m && m <= b } else { m >= a || m <= b }
        }
        ds::MonthdayRange::Date { start, end } => {
            if start == end {
                return (y - 1..=y + 1).any(|yy| resolve(&start.0, yy, Clamp::Exact).map(|x| apply_off(x, &start.1)) == Some(d));
            }
            if let Some(sy) = date_year(&start.0) {
                let Some(s) = resolve(&start.0, sy, Clamp::After).map(|x| apply_off(x, &start.1)) else { return false };
                let e = match date_year(&end.0) {
                    Some(ey) => resolve(&end.0, ey, Clamp::Before).map(|x| apply_off(x, &end.1)),
                    None => (sy - 1..=sy + 2).filter_map(|yy| resolve(&end.0, yy, Clamp::Before).map(|x| apply_off(x, &end.1))).find(|e| *e >= s),
                };
                return e.map(|e| s <= d && d <= e).unwrap_or(false);
            }
            for yy in y - 2..=y + 1 {
                let Some(s) = resolve(&start.0, yy, Clamp::After).map(|x| apply_off(x, &start.1)) else { continue };
                let e = (yy - 1..=yy + 2).filter_map(|y2| resolve(&end.0, y2, Clamp::Before).map(|x| apply_off(x, &end.1))).filter(|e| *e >= s).min();
                if let Some(e) = e { if s <= d && d <= e { return true; } }
            }
            false
        }
    }
}

fn iso_week(d: NaiveDate) -> u32 {
    // own computation: week of the Thursday of this week
    let thu = d + Duration::days(3 - wd_idx(d.weekday()));
    (thu.ordinal0() / 7) + 1
}

fn weekday_match(r: &ds::WeekDayRange, d: NaiveDate, ctx: &Ctx) -> bool {
    match r {
        ds::WeekDayRange::Fixed { range, offset, nth_from_start, nth_from_end } => {
            let d2 = d - Duration::days(*offset);
            let (a, b) = (wd_idx(*range.start()), wd_idx(*range.end())); let w = wd_idx(d2.weekday());
            let inr = if a <= b { a <= w && w <= b } else { w >= a || w <= b };
            let ps = ((d2.day() - 1) / 7) as usize; let pe = ((dim(d2.year(), d2.month()) - d2.day()) / 7) as usize;
            inr && (nth_from_start[ps] || nth_from_end[pe])
        }
        ds::WeekDayRange::Holiday { kind, offset } => {
            let d2 = d - Duration::days(*offset);
            match kind { ds::HolidayKind::Public => ctx.ph.contains(&d2), ds::HolidayKind::School => ctx.sh.contains(&d2) }
        }
    }
}

pub fn day_match(s: &ds::DaySelector, d: NaiveDate, ctx: &Ctx) -> bool {
    let y = d.year();
    let ym = s.year.is_empty() || s.year.iter().any(|r| { let (a, b) = (r.range.start().0 as i32, r.range.end().0 as i32); let st = r.step as i32;
        if a <= b { a <= y && y <= b && (y - a) % st == 0 } else { (y >= a || y <= b) && (y - a).abs() % st == 0 } });
    let mm = s.monthday.is_empty() || s.monthday.iter().any(|r| monthday_match(r, d));
    let w = iso_week(d) as i32;
    let wm = s.week.is_empty() || s.week.iter().any(|r| { let (a, b) = (r.range.start().0 as i32, r.range.end().0 as i32); let st = r.step as i32;
        if a <= b { a <= w && w <= b && (w - a) % st == 0 } else { (w >= a || w <= b) && (w - a).max(0) % st == 0 } });
    let dm = s.weekday.is_empty() || s.weekday.iter().any(|r| weekday_match(r, d, ctx));
    ym && mm && wm && dm
}

fn time_mins(t: &ts::Time) -> i32 {
    match t { ts::Time::Fixed(e) => e.mins_from_midnight() as i32,
        ts::Time::Variable(v) => { let base = match v.event { ts::TimeEvent::Dawn => 360, ts::TimeEvent::Sunrise => 420, ts::TimeEvent::Sunset => 1140, ts::TimeEvent::Dusk => 1200 };
            let x = base + v.offset as i32; if x < 0 || x > 2880 { 0 } else { x } } }
}

// paint minutes: today part / spill part
fn spans(tsel: &ts::TimeSelector) -> Vec<(i32, i32)> {
    tsel.time.iter().map(|sp| { let a = time_mins(&sp.range.start); let mut b = time_mins(&sp.range.end); if !(a < b) { b += 1440; } (a, b) }).collect()
}

pub fn eval_day(e: &rl::OpeningHoursExpression, d: NaiveDate, ctx: &Ctx) -> [K; 1440] {
    let lo = NaiveDate::from_ymd_opt(1900, 1, 1).unwrap(); let hi = NaiveDate::from_ymd_opt(9999, 12, 31).unwrap();
    let mut st: [Option<K>; 1440] = [None; 1440];
    if d < lo || d > hi { return [K::C; 1440]; }
    for r in &e.rules {
        let kind = match r.kind { rl::RuleKind::Open => K::O, rl::RuleKind::Closed => K::C, rl::RuleKind::Unknown => K::U };
        let mt = day_match(&r.day_selector, d, ctx);
        let my = day_match(&r.day_selector, d - Duration::days(1), ctx);
        let mut layer: [bool; 1440] = [false; 1440];
        let has = mt || my;
        for (a, b) in spans(&r.time_selector) {
            if mt { for m in a.max(0)..b.min(1440) { layer[m as usize] = true; } }
            if my { for m in (a.max(1440) - 1440)..(b.min(2880) - 1440).max(0) { layer[m as usize] = true; } }
        }
        let overlay = |st: &mut [Option<K>; 1440]| { for m in 0..1440 { if layer[m] { st[m] = Some(kind); } } };
        match (r.operator, r.kind) {
            (rl::RuleOperator::Normal, rl::RuleKind::Open | rl::RuleKind::Unknown) => {
                if mt { st = [None; 1440]; overlay(&mut st); } else if has { overlay(&mut st); }
            }
            (rl::RuleOperator::Additional, _) | (rl::RuleOperator::Normal, rl::RuleKind::Closed) => { if has { overlay(&mut st); } }
            (rl::RuleOperator::Fallback, _) => {
                let covered = st.iter().any(|x| matches!(x, Some(K::O) | Some(K::U)));
                if !covered { st = [None; 1440]; if has { overlay(&mut st); } }
            }
        }
    }
    let mut out = [K::C; 1440]; for m in 0..1440 { out[m] = st[m].unwrap_or(K::C); } out
}
