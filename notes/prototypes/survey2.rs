// Throwaway survey: crude random expression generator + internal-consistency checks.
use opening_hours::{OpeningHours, Context};
use chrono::{NaiveDate, Duration};
use std::collections::BTreeMap;
use std::panic::{catch_unwind, AssertUnwindSafe};

struct R(u64);
impl R { fn n(&mut self, m: u64) -> u64 { self.0 ^= self.0 << 13; self.0 ^= self.0 >> 7; self.0 ^= self.0 << 17; self.0 % m }
 fn p(&mut self, pct: u64) -> bool { self.n(100) < pct }
 fn pick<'a>(&mut self, v: &[&'a str]) -> &'a str { v[self.n(v.len() as u64) as usize] } }

const WD: [&str;7] = ["Mo","Tu","We","Th","Fr","Sa","Su"];
const MO: [&str;12] = ["Jan","Feb","Mar","Apr","May","Jun","Jul","Aug","Sep","Oct","Nov","Dec"];

fn year(r:&mut R)->String{ let b: u64 = std::env::var("YBASE").ok().and_then(|x| x.parse().ok()).unwrap_or(2018); format!("{}", (b + r.n(8)).min(9999).max(1900)) }
fn day_off(r:&mut R)->String{ if r.p(70){String::new()} else { let k=1+r.n(3); format!(" {}{} day{}", if r.p(50){"+"}else{"-"}, k, if k>1{"s"}else{""}) } }
fn date(r:&mut R, wy: bool)->String{ let mut s=String::new(); if wy { s+=&year(r); s+=" "; }
  if r.p(12){ s+="easter"; } else { s+=MO[r.n(12) as usize]; s+=" "; s+=&format!("{}", match r.n(10){0=>29,1=>30,2=>31,3=>1,_=>1+r.n(28)}); }
  if r.p(15){ s+= if r.p(50){"+"}else{"-"}; s+=WD[r.n(7) as usize]; }
  s+=&day_off(r); s }
fn monthday(r:&mut R)->String{ match r.n(7){
  0=>{ let a=r.n(12) as usize; format!("{}{}", if r.p(25){year(r)}else{String::new()}, MO[a]) }
  1=>{ let a=r.n(12) as usize; let b=r.n(12) as usize; format!("{}{}-{}", if r.p(25){year(r)}else{String::new()}, MO[a], MO[b]) }
  2=>{ let wy=r.p(25); date(r,wy) }
  3=>{ let wy=r.p(25); format!("{}+", date(r,wy)) }
  4=>{ let wy=r.p(25); let wy2=r.p(25); format!("{}-{}", date(r,wy), date(r,wy2)) }
  5=>{ let wy=r.p(25); format!("{}{} {}-{}", if wy {year(r)+" "} else {String::new()}, MO[r.n(12) as usize], 1+r.n(28), 1+r.n(31)) }
  _=>{ format!("{}-{}", date(r,false), date(r,false)) } } }
fn yearsel(r:&mut R)->String{ match r.n(5){0=>year(r),1=>format!("{}-{}",year(r),year(r)),2=>format!("{}-{}/{}",year(r),year(r),1+r.n(3)),3=>format!("{}+",year(r)),_=>format!("{},{}",year(r),year(r))} }
fn weeksel(r:&mut R)->String{ let a=1+r.n(53); let b=1+r.n(53); match r.n(4){0=>format!("week {}",a),1=>format!("week {}-{}",a,b),2=>format!("week {}-{}/{}",a,b,1+r.n(4)),_=>format!("week {},{}-{}",a,b.min(a), b.max(a))} }
fn wdsel(r:&mut R)->String{ let mut v=vec![]; for _ in 0..1+r.n(2){ v.push(match r.n(8){
  0=>format!("{}",WD[r.n(7) as usize]),1|2=>format!("{}-{}",WD[r.n(7) as usize],WD[r.n(7) as usize]),
  3=>format!("{}[{}]{}",WD[r.n(7) as usize],1+r.n(5), day_off(r)),4=>format!("{}[-{}]{}",WD[r.n(7) as usize],1+r.n(5), day_off(r)),
  5=>format!("{}[{},-{}]",WD[r.n(7) as usize],1+r.n(5),1+r.n(5)), 6=>format!("PH{}", day_off(r)), _=>"SH".to_string()}); } v.join(",") }
fn time(r:&mut R, ext: bool)->String{ if r.p(12){ let e=r.pick(&["dawn","sunrise","sunset","dusk"]); if r.p(50){e.to_string()} else {format!("({}{}{:02}:{:02})",e,if r.p(50){"+"}else{"-"},r.n(3),r.n(4)*15)} }
  else { let h = if ext { r.n(49) } else { r.n(25) }; let m = if h==24 && !ext || h==48 {0} else {r.n(4)*15}; format!("{:02}:{:02}",h,m) } }
fn span(r:&mut R)->String{ match r.n(10){0=>format!("{}+",time(r,false)),1=>format!("{}-{}+",time(r,false),time(r,true)),_=>format!("{}-{}",time(r,false),time(r,true))} }
fn timesel(r:&mut R)->String{ let mut v=vec![]; for _ in 0..1+r.n(2){v.push(span(r));} v.join(",") }
fn rule(r:&mut R)->String{ let mut s=String::new();
  if r.p(8){ s+="24/7"; } else {
   if r.p(20){ s+=&yearsel(r); s+=" "; }
   if r.p(35){ s+=&monthday(r); s+=" "; }
   if r.p(15){ s+=&weeksel(r); s+=" "; }
   if r.p(50){ s+=&wdsel(r); s+=" "; }
   if r.p(75){ s+=&timesel(r); s+=" "; } }
  if r.p(40){ s+=r.pick(&["open","closed","off","unknown"]); s+=" "; }
  if r.p(15){ s+=&format!("\"c{}\"", r.n(3)); }
  s.trim().to_string() }
fn expr(r:&mut R)->String{ let mut s=rule(r); for _ in 0..r.n(4){ s+=r.pick(&["; ","; ","; ",", "," || "]); s+=&rule(r);} s }

fn sched(oh:&OpeningHours, d:NaiveDate)->Vec<(String,String)>{ oh.schedule_at(d).into_iter().map(|t|(format!("{:?}",t.range),format!("{:?}",t.kind))).collect() }

fn main(){
  let n: u64 = std::env::args().nth(1).unwrap().parse().unwrap();
  let seed: u64 = std::env::args().nth(2).unwrap().parse().unwrap();
  let mut r=R(seed*0x9E3779B97F4A7C15+1);
  std::panic::set_hook(Box::new(|_|{}));
  let mut classes: BTreeMap<String,(u64,Vec<String>)> = BTreeMap::new();
  let mut add=|k:String, ex:String|{ let e=classes.entry(k).or_insert((0,vec![])); e.0+=1; e.1.push(ex); e.1.sort_by_key(|x|x.len()); e.1.dedup(); e.1.truncate(12); };
  let mut parsed=0u64;
  let yb: i32 = std::env::var("YBASE").ok().and_then(|x| x.parse().ok()).unwrap_or(2018); let d0=NaiveDate::from_ymd_opt(yb-1,12,25).unwrap();
  let ctx = { let mut cph=compact_calendar::CompactCalendar::default(); let mut csh=compact_calendar::CompactCalendar::default();
      for i in 0..400i64 { cph.insert(d0+Duration::days((i*37+11)%3300)); } for i in 0..60i64 { for k in 0..9i64 { csh.insert(d0+Duration::days((i*61+5)%3300 + k)); } }
      Context::default().with_holidays(opening_hours::ContextHolidays::new(std::sync::Arc::new(cph), std::sync::Arc::new(csh))) };
  for _ in 0..n {
    let s=expr(&mut r);
    let res = catch_unwind(AssertUnwindSafe(|| OpeningHours::parse(&s)));
    let oh = match res { Err(_)=>{add("PANIC parse".into(), s.clone()); continue}, Ok(Err(_))=>{ continue }, Ok(Ok(o))=>o };
    parsed+=1; let oh=oh.with_context(ctx.clone());
    let dates: Vec<NaiveDate> = (0..40).map(|_| d0+Duration::days(r.n(365*9) as i64)).collect();
    // C06
    let printed=oh.to_string();
    match OpeningHours::parse(&printed).map(|o| o.with_context(ctx.clone())){ Err(_)=>add("C06 reparse-fails".into(), format!("{s}  =>  {printed}")), Ok(oh2)=>{
        let bad = catch_unwind(AssertUnwindSafe(|| dates.iter().find(|d| sched(&oh,**d)!=sched(&oh2,**d)).copied()));
        match bad { Err(_)=>add("PANIC schedule_at".into(), s.clone()), Ok(Some(d))=>add("C06 reparse-differs".into(), format!("{s}  =>  {printed} @ {d}")), _=>{} } } }
    // C07 / C13
    let res = catch_unwind(AssertUnwindSafe(|| oh.normalize()));
    match res { Err(_)=>add("PANIC normalize".into(), s.clone()), Ok(n1)=>{
        let bad = catch_unwind(AssertUnwindSafe(|| dates.iter().find(|d| sched(&oh,**d)!=sched(&n1,**d)).copied()));
        if let Ok(Some(d))=bad { add("C07 normalize-differs".into(), format!("{s}  =>  {n1} @ {d}")); }
        if let Ok(n2)=catch_unwind(AssertUnwindSafe(|| n1.normalize())) { if n2!=n1 { add("C13 not-idempotent".into(), format!("{s} => {n1} => {n2}")); } }
        match OpeningHours::parse(&n1.to_string()){ Err(_)=>add("C13 normal-form-reparse-fails".into(), format!("{s}  =>  {n1}")), _=>{} }
    } }
    // C02: stream vs pointwise over 400 days
    let from=(d0+Duration::days(r.n(365*8) as i64)).and_hms_opt(r.n(24) as u32, 0,0).unwrap(); let to=from+Duration::days(400);
    let res = catch_unwind(AssertUnwindSafe(|| {
       let ivs: Vec<_> = oh.iter_range(from,to).collect(); let to = to.min(opening_hours::DATE_END);
       // pointwise
       let mut exp: Vec<(chrono::NaiveDateTime, chrono::NaiveDateTime, String)> = vec![];
       let mut d=from.date(); while d<=to.date(){ for t in oh.schedule_at(d){ let a=d.and_hms_opt(0,0,0).unwrap()+Duration::minutes(t.range.start.mins_from_midnight() as i64); let b=d.and_hms_opt(0,0,0).unwrap()+Duration::minutes(t.range.end.mins_from_midnight() as i64); let a=a.max(from); let b=b.min(to); if a<b { let k=format!("{:?}",t.kind); if let Some(l)=exp.last_mut(){ if l.2==k && l.1==a { l.1=b; continue; } } exp.push((a,b,k)); } } d=d.succ_opt().unwrap(); }
       let got: Vec<_> = ivs.iter().map(|i|(i.range.start,i.range.end,format!("{:?}",i.kind))).collect();
       if got!=exp { Some(format!("got {:?} exp {:?}", got.iter().zip(exp.iter()).find(|(a,b)|a!=b), got.len()==exp.len())) } else { None } }));
    match res { Err(_)=>add("PANIC iter_range".into(), s.clone()), Ok(Some(m))=>add("C02 stream-differs".into(), format!("{s} from {from}: {m}")), _=>{} }
  }
  println!("generated {n} parsed {parsed}");
  for (k,(c,ex)) in &classes { println!("{c:7} {k}"); for e in ex { println!("          e.g. {e}"); } }
}
