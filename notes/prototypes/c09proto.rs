use opening_hours::{OpeningHours, Context};
use opening_hours::localization::{TzLocation, Localize};
use chrono::{NaiveDate, NaiveDateTime, Duration, TimeZone, LocalResult, Offset, Utc, DateTime};
use chrono_tz::Tz;
use std::collections::BTreeMap;
struct R(u64);
impl R { fn n(&mut self, m: u64) -> u64 { self.0 ^= self.0 << 13; self.0 ^= self.0 >> 7; self.0 ^= self.0 << 17; self.0 % m } }
fn off(tz: Tz, u: NaiveDateTime) -> i64 { tz.offset_from_utc_datetime(&u).fix().local_minus_utc() as i64 }
// transitions in [a,b): utc instants (seconds) where offset changes
fn transitions(tz: Tz, a: NaiveDateTime, b: NaiveDateTime) -> Vec<NaiveDateTime> {
    let mut out=vec![]; let mut u=a; let step=Duration::hours(12);
    while u<b { let v=u+step; if off(tz,u)!=off(tz,v) { let (mut lo,mut hi)=(u.and_utc().timestamp(),v.and_utc().timestamp()); let at=|s:i64| DateTime::from_timestamp(s,0).unwrap().naive_utc(); let olo=off(tz,at(lo)); while hi-lo>1 { let mid=lo+(hi-lo)/2; if off(tz,at(mid))==olo { lo=mid } else { hi=mid } } out.push(at(hi)); } u=v; }
    out
}
// independent oracle: map naive local -> instant (latest if ambiguous, first valid after if gap)
fn oracle_map(tz: Tz, n: NaiveDateTime) -> DateTime<Tz> {
    // candidates: u = n - o for all offsets o seen within +-2 days
    let mut cands: Vec<NaiveDateTime> = vec![];
    let mut offs: Vec<i64> = vec![]; for h in -48..=48 { let o=off(tz, n+Duration::hours(h)); if !offs.contains(&o) { offs.push(o); } }
    for o in &offs { let u=n-Duration::seconds(*o); if off(tz,u)==*o { cands.push(u); } }
    if let Some(u)=cands.iter().max() { return tz.from_utc_datetime(u); }
    // gap: first transition instant T after which local time > n: find transitions around
    let ts=transitions(tz, n-Duration::days(3), n+Duration::days(3));
    for t in ts { let before=off(tz,t-Duration::seconds(1)); let after=off(tz,t); let lb=t+Duration::seconds(before); let la=t+Duration::seconds(after); if lb<=n && n<la { return tz.from_utc_datetime(&t); } }
    eprintln!("transitions: {:?}", transitions(tz, n-Duration::days(3), n+Duration::days(3)).iter().map(|t| (*t, off(tz,*t-Duration::seconds(1)), off(tz,*t))).collect::<Vec<_>>());
    panic!("no mapping for {n} in {tz}");
}
fn main(){
  let n: u64 = std::env::args().nth(1).unwrap().parse().unwrap();
  let mut r=R(std::env::args().nth(2).unwrap().parse::<u64>().unwrap()*0x9E3779B97F4A7C15+1);
  let mut classes: BTreeMap<String,(u64,Vec<String>)> = BTreeMap::new();
  let oh0=OpeningHours::parse("Mo-Su 01:30-02:30,03:15-05:00; Sa 00:30-02:00,02:15-26:30 unknown").unwrap();
  let (mut gaps, mut folds, mut plain)=(0u64,0u64,0u64);
  for _ in 0..n {
    let tz=chrono_tz::TZ_VARIANTS[r.n(chrono_tz::TZ_VARIANTS.len() as u64) as usize];
    let y=1900+r.n(201) as i32;
    let a=NaiveDate::from_ymd_opt(y,1,1).unwrap().and_hms_opt(0,0,0).unwrap(); let b=NaiveDate::from_ymd_opt(y+1,1,1).unwrap().and_hms_opt(0,0,0).unwrap();
    let ts=transitions(tz,a,b);
    let loc=TzLocation::new(tz);
    let oh=oh0.clone().with_context(Context::default().with_locale(loc.clone()));
    for t in ts.iter().take(4) {
      for _ in 0..6 {
        let before=off(tz,*t-Duration::seconds(1)); let after=off(tz,*t);
        let base = *t + Duration::seconds(before.min(after)); // local time at start of gap/fold region
        let nloc = base + Duration::minutes(r.n(240) as i64 - 120);
        let nloc = NaiveDateTime::new(nloc.date(), chrono::NaiveTime::from_hms_opt(chrono::Timelike::hour(&nloc), chrono::Timelike::minute(&nloc), 0).unwrap());
        match tz.from_local_datetime(&nloc) { LocalResult::None=>gaps+=1, LocalResult::Ambiguous(..)=>folds+=1, _=>plain+=1 }
        let got=loc.datetime(nloc); let exp=oracle_map(tz,nloc);
        if got!=exp { let c=classes.entry("map differs".into()).or_insert((0,vec![])); c.0+=1; c.1.push(format!("{tz} {nloc}: got {got} exp {exp}")); c.1.truncate(12); }
        // evaluation: instant near transition
        let inst = tz.from_utc_datetime(&(*t + Duration::minutes(r.n(360) as i64 - 180)));
        let inst_other = inst.with_timezone(&chrono_tz::TZ_VARIANTS[r.n(596) as usize]);
        let naive = inst.naive_local();
        let st_tz = oh.state(inst_other.clone()); let st_n = oh0.state(naive);
        if st_tz!=st_n { let c=classes.entry("state differs".into()).or_insert((0,vec![])); c.0+=1; c.1.push(format!("{tz} {inst}")); c.1.truncate(12); }
        let nc_tz=oh.next_change(inst_other.clone()); let nc_n=oh0.next_change(naive).map(|x| oracle_map(tz,x));
        if nc_tz!=nc_n { let c=classes.entry("next_change differs".into()).or_insert((0,vec![])); c.0+=1; c.1.push(format!("{tz} {inst}: got {:?} exp {:?}", nc_tz, nc_n)); c.1.truncate(12); }
        // intervals monotone
        let to = inst_other.clone()+Duration::hours(30);
        let mut last: Option<DateTime<Utc>> = None;
        for iv in oh.iter_range(inst_other.clone(), to) { let s=iv.range.start.with_timezone(&Utc); let e=iv.range.end.with_timezone(&Utc); if s>e || last.map(|l| s<l).unwrap_or(false) { let c=classes.entry("backwards".into()).or_insert((0,vec![])); c.0+=1; c.1.push(format!("{tz} {inst}: {:?}", iv.range)); c.1.truncate(12);} last=Some(e); }
      }
    }
  }
  println!("gaps {gaps} folds {folds} plain {plain}");
  for (k,(c,ex)) in &classes { println!("{c:7} {k}"); for e in ex { println!("          e.g. {e}"); } }
}
