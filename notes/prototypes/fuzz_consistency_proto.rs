#![no_main]
use libfuzzer_sys::fuzz_target;
use chrono::{NaiveDate, Duration};
use opening_hours::{OpeningHours, Context};
fuzz_target!(|data: &[u8]| {
    if data.len() < 4 { return; }
    let (head, tail) = data.split_at(4);
    let Ok(s) = std::str::from_utf8(tail) else { return };
    let Ok(oh) = OpeningHours::parse(s) else { return };
    let printed = oh.to_string();
    let re = OpeningHours::parse(&printed).unwrap_or_else(|e| panic!("C06 reparse: {s:?} => {printed:?}: {e}"));
    let n = oh.normalize();
    assert_eq!(n.normalize(), n, "C13 idempotent {s:?}");
    let days = u32::from_le_bytes([head[0], head[1], head[2], 0]) % (8100*365);
    let d = NaiveDate::from_ymd_opt(1900,1,1).unwrap() + Duration::days(days as i64);
    for k in 0..3 { let dd = d + Duration::days(k);
        let a: Vec<_> = oh.schedule_at(dd).into_iter().map(|t| (t.range, t.kind)).collect();
        let b: Vec<_> = re.schedule_at(dd).into_iter().map(|t| (t.range, t.kind)).collect();
        let c: Vec<_> = n.schedule_at(dd).into_iter().map(|t| (t.range, t.kind)).collect();
        assert_eq!(a, b, "C06 eval {s:?} => {printed:?} @ {dd}");
        assert_eq!(a, c, "C07 eval {s:?} => {n} @ {dd}");
    }
    let t = d.and_hms_opt((head[3] % 24) as u32, 0, 0).unwrap();
    let ohb = oh.with_context(Context::default().approx_bound_interval_size(Duration::days(800)));
    let _ = ohb.state(t); let _ = ohb.next_change(t);
    let _ = ohb.iter_range(t, t + Duration::days(40)).count();
});
