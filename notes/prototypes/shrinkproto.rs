// Scratch: does proptest shrink a u16 choice sequence into a small expression?
use proptest::prelude::*;
use proptest::test_runner::{Config, RngSeed, TestRunner, TestError, TestCaseError};
struct Ch<'a>{ d:&'a [u16], p:usize }
impl<'a> Ch<'a>{ fn draw(&mut self, n:u32)->u32{ let v=*self.d.get(self.p).unwrap_or(&0) as u32; self.p+=1; (v*n)>>16 } fn p(&mut self, pct:u32)->bool{ self.draw(100) >= 100-pct } }
const WD:[&str;7]=["Mo","Tu","We","Th","Fr","Sa","Su"]; const MO:[&str;12]=["Jan","Feb","Mar","Apr","May","Jun","Jul","Aug","Sep","Oct","Nov","Dec"];
fn off(c:&mut Ch)->String{ if !c.p(30){String::new()} else { let k=1+c.draw(3); format!(" {}{} day{}", if c.p(50){"-"}else{"+"}, k, if k>1{"s"}else{""}) } }
fn wd(c:&mut Ch)->String{ match c.draw(6){0=>WD[c.draw(7) as usize].to_string(),1=>format!("{}-{}",WD[c.draw(7) as usize],WD[c.draw(7) as usize]),2=>format!("{}[{}]{}",WD[c.draw(7) as usize],1+c.draw(5),off(c)),3=>format!("PH{}",off(c)),4=>"SH".into(),_=>format!("{}[-{}]",WD[c.draw(7) as usize],1+c.draw(5))} }
fn time(c:&mut Ch)->String{ if c.p(15){ let e=["dawn","sunrise","sunset","dusk"][c.draw(4) as usize]; if c.p(50){ format!("({}{}{:02}:{:02})",e,if c.p(50){"-"}else{"+"},c.draw(3),c.draw(4)*15) } else {e.to_string()} } else { format!("{:02}:{:02}", 8+c.draw(12), c.draw(4)*15) } }
fn rule(c:&mut Ch)->String{ let mut s=String::new(); if c.p(30){ s+=&format!("{} ", 2020+c.draw(5)); } if c.p(30){ s+=MO[c.draw(12) as usize]; s+=" "; } if c.p(60){ let n=1+c.draw(2); let v:Vec<String>=(0..n).map(|_|wd(c)).collect(); s+=&v.join(","); s+=" "; } if c.p(70){ s+=&format!("{}-{}", time(c), time(c)); s+=" "; } if c.p(30){ s+=["open","off","unknown"][c.draw(3) as usize]; } s.trim().to_string() }
fn expr(c:&mut Ch)->String{ let n=1+c.draw(4); let mut s=rule(c); for _ in 1..n { s+=[" ; ",", "," || "][c.draw(3) as usize]; s+=&rule(c); } s }
fn main(){
  let seed: u64=std::env::args().nth(1).unwrap().parse().unwrap();
  let mut seedb=[0u8;32]; seedb[..8].copy_from_slice(&seed.to_le_bytes());
  let mut runner=TestRunner::new(Config{cases:20000, failure_persistence:None, rng_seed: RngSeed::Fixed(seed), max_shrink_iters: 20000, ..Config::default()});
  let _ = seedb;
  let count=std::cell::Cell::new(0u64);
  let res=runner.run(&proptest::collection::vec(any::<u16>(), 0..120), |v| {
     count.set(count.get()+1);
     let mut c=Ch{d:&v,p:0}; let s=expr(&mut c);
     let Ok(oh)=opening_hours::OpeningHours::parse(&s) else { return Ok(()) };
     let printed=oh.to_string();
     if opening_hours::OpeningHours::parse(&printed).is_err() { return Err(TestCaseError::fail(format!("{s} => {printed}"))); }
     Ok(()) });
  match res { Ok(())=>println!("no failure in {}", count.get()), Err(TestError::Fail(r, v))=>{ let mut c=Ch{d:&v,p:0}; println!("after {} runs: FAIL {r}\n  choices {:?}\n  expr {}", count.get(), v, expr(&mut c)); }, Err(e)=>println!("{e:?}") }
}
