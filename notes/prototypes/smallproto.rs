
use opening_hours::{OpeningHours};
use opening_hours::schedule::Schedule;
use opening_hours_syntax::{ExtendedTime, RuleKind};
use opening_hours_syntax::sorted_vec::UniqueSortedVec;
use compact_calendar::CompactCalendar;
use chrono::{NaiveDate, Duration, Datelike};
use std::collections::{BTreeMap, BTreeSet};
use std::panic::{catch_unwind, AssertUnwindSafe};
struct R(u64);
impl R { fn n(&mut self, m: u64) -> u64 { self.0 ^= self.0 << 13; self.0 ^= self.0 >> 7; self.0 ^= self.0 << 17; self.0 % m }
 fn p(&mut self, pct: u64) -> bool { self.n(100) < pct }
 fn pick<'a>(&mut self, v: &[&'a str]) -> &'a str { v[self.n(v.len() as u64) as usize] } }

const WD: [&str;7] = ["Mo","Tu","We","Th","Fr","Sa","Su"];
const MO: [&str;12] = ["Jan","Feb","Mar","Apr","May","Jun","Jul","Aug","Sep","Oct","Nov","Dec"];

fn year(r:&mut R)->String{ format!("{}", 2018 + r.n(8)) }
fn day_off(r:&mut R)->String{ if r.p(70){String::new()} else { let k=1+r.n(3); format!(" {}{} day{}", if r.p(50){"+"}else{"-"}, k, if k>1{"s"}else{""}) } }
fn date(r:&mut R, wy: bool)->String{ let mut s=String::new(); if wy { s+=&year(r); s+=" "; }
  if r.p(12){ s+="easter"; } else { s+=MO[r.n(12) as usize]; s+=" "; s+=&format!("{}", match r.n(10){0=>29,1=>30,2=>31,3=>1,_=>1+r.n(28)}); }
  if r.p(15){ s+= if r.p(50){"+"}else{"-"}; s+=WD[r.n(7) as usize]; }
  s+=&day_off(r); s }
fn monthday(r:&mut R)->String{ match r.n(7){
  0=>{ let a=r.n(12) as usize; format!("{}{}", if r.p(25){year(r)}else{String::new()}, MO[a]) }
  1=>{ let a=r.n(12) as usize; let b=r.n(12) as usize; format!("{}{}-{}", if r.p(25){year(r)}else{String::new()}, MO[a], MO[b]) }
  2=>{ let wy=r.p(25); date(r,wy) }
  3=>{ let wy=r.p(25); format!("{}+", date(r,wy)) }
  4=>{ let wy=r.p(25); let wy2=r.p(25); format!("{}-{}", date(r,wy), date(r,wy2)) }
  5=>{ let wy=r.p(25); format!("{}{} {}-{}", if wy {year(r)+" "} else {String::new()}, MO[r.n(12) as usize], 1+r.n(28), 1+r.n(31)) }
  _=>{ format!("{}-{}", date(r,false), date(r,false)) } } }
fn yearsel(r:&mut R)->String{ match r.n(5){0=>year(r),1=>format!("{}-{}",year(r),year(r)),2=>format!("{}-{}/{}",year(r),year(r),1+r.n(3)),3=>format!("{}+",year(r)),_=>format!("{},{}",year(r),year(r))} }
fn weeksel(r:&mut R)->String{ let a=1+r.n(53); let b=1+r.n(53); match r.n(4){0=>format!("week {}",a),1=>format!("week {}-{}",a,b),2=>format!("week {}-{}/{}",a,b,1+r.n(4)),_=>format!("week {},{}-{}",a,b.min(a), b.max(a))} }
fn wdsel(r:&mut R)->String{ let mut v=vec![]; for _ in 0..1+r.n(2){ v.push(match r.n(8){
  0=>format!("{}",WD[r.n(7) as usize]),1|2=>format!("{}-{}",WD[r.n(7) as usize],WD[r.n(7) as usize]),
  3=>format!("{}[{}]{}",WD[r.n(7) as usize],1+r.n(5), day_off(r)),4=>format!("{}[-{}]{}",WD[r.n(7) as usize],1+r.n(5), day_off(r)),
  5=>format!("{}[{},-{}]",WD[r.n(7) as usize],1+r.n(5),1+r.n(5)), 6=>format!("PH{}", day_off(r)), _=>"SH".to_string()}); } v.join(",") }
fn time(r:&mut R, ext: bool)->String{ if r.p(12){ let e=r.pick(&["dawn","sunrise","sunset","dusk"]); if r.p(50){e.to_string()} else {format!("({}{}{:02}:{:02})",e,if r.p(50){"+"}else{"-"},r.n(3),r.n(4)*15)} }
  else { let h = if ext { r.n(49) } else { r.n(25) }; let m = if h==24 && !ext || h==48 {0} else {r.n(4)*15}; format!("{:02}:{:02}",h,m) } }
fn span(r:&mut R)->String{ match r.n(10){0=>format!("{}+",time(r,false)),1=>format!("{}-{}+",time(r,false),time(r,true)),_=>format!("{}-{}",time(r,false),time(r,true))} }
fn timesel(r:&mut R)->String{ let mut v=vec![]; for _ in 0..1+r.n(2){v.push(span(r));} v.join(",") }
fn rule(r:&mut R)->String{ let mut s=String::new();
  if r.p(8){ s+="24/7"; } else {
   if r.p(20){ s+=&yearsel(r); s+=" "; }
   if r.p(35){ s+=&monthday(r); s+=" "; }
   if r.p(15){ s+=&weeksel(r); s+=" "; }
   if r.p(50){ s+=&wdsel(r); s+=" "; }
   if r.p(75){ s+=&timesel(r); s+=" "; } }
  if r.p(40){ s+=r.pick(&["open","closed","off","unknown"]); s+=" "; }
  if r.p(15){ s+=&format!("\"c{}\"", r.n(3)); }
  s.trim().to_string() }
fn expr(r:&mut R)->String{ let mut s=rule(r); for _ in 0..r.n(4){ s+=r.pick(&["; ","; ","; ",", "," || "]); s+=&rule(r);} s }


fn et(m:u16)->ExtendedTime{ExtendedTime::from_mins_from_midnight(m).unwrap()}
fn main(){
  let n: u64 = std::env::args().nth(1).unwrap().parse().unwrap();
  let mut r=R(std::env::args().nth(2).unwrap().parse::<u64>().unwrap()*0x9E3779B97F4A7C15+1);
  std::panic::set_hook(Box::new(|_|{}));
  let mut classes: BTreeMap<String,(u64,Vec<String>)> = BTreeMap::new();
  let mut add=|k:&str, ex:String|{ let e=classes.entry(k.to_string()).or_insert((0,vec![])); e.0+=1; e.1.push(ex); e.1.sort_by_key(|x|x.len()); e.1.dedup(); e.1.truncate(6); };
  // ---- C14
  for _ in 0..n {
    let mut model: Vec<Option<RuleKind>> = vec![None;1440]; let mut sched=Schedule::new(); let mut desc=String::new();
    for _ in 0..1+r.n(4) {
      let kind=[RuleKind::Open,RuleKind::Closed,RuleKind::Unknown][r.n(3) as usize];
      let mut rgs=vec![]; for _ in 0..r.n(5) { let a=(r.n(97)*15) as u16; let b=(r.n(97)*15) as u16; rgs.push(et(a.min(1440))..et(b.min(1440))); }
      desc+=&format!("{:?}{:?}; ",kind,rgs);
      let s2=Schedule::from_ranges(rgs.clone(),kind,&Default::default());
      // from_ranges union check via into_iter of s2 alone
      let mut m2=vec![false;1440]; for rg in &rgs { for m in rg.start.mins_from_midnight()..rg.end.mins_from_midnight().min(1440) { if rg.start<rg.end { m2[m as usize]=true; } } }
      for m in 0..1440 { if m2[m] { model[m]=Some(kind); } }
      sched=sched.addition(s2);
    }
    let res=catch_unwind(AssertUnwindSafe(|| sched.clone().into_iter().collect::<Vec<_>>()));
    match res { Err(_)=>add("C14 panic", desc.clone()), Ok(trs)=>{
      let mut ok = !trs.is_empty() && trs[0].range.start==et(0) && trs.last().unwrap().range.end==et(1440);
      for w in trs.windows(2){ if w[0].range.end!=w[1].range.start || w[0].kind==w[1].kind { ok=false; } }
      for t in &trs { if t.range.start>=t.range.end { ok=false; } for m in t.range.start.mins_from_midnight()..t.range.end.mins_from_midnight().min(1440) { if model[m as usize].unwrap_or(RuleKind::Closed)!=t.kind { ok=false; } } }
      if !ok { add("C14 mismatch", format!("{desc} => {:?}", trs.iter().map(|t| format!("{:?}{:?}",t.range,t.kind)).collect::<Vec<_>>())); } } }
  }
  // ---- C15
  for _ in 0..n {
    let mut cal=CompactCalendar::default(); let mut set=BTreeSet::new(); let base=1990+r.n(40) as i32; let mut hist=vec![];
    for _ in 0..r.n(25) {
      let y = match r.n(10){0=>base-(r.n(300) as i32),1=>base+(r.n(300) as i32),2=>-(r.n(5000) as i32),_=>base+(r.n(4) as i32)};
      let m=1+r.n(12) as u32; let dd=[1,28,29,30,31,1+r.n(28) as u32][r.n(6) as usize];
      let Some(d)=NaiveDate::from_ymd_opt(y,m,dd) else {continue};
      let newm=set.insert(d); let newc=cal.insert(d); hist.push(d);
      if newm!=newc { add("C15 insert return", format!("{hist:?}")); }
      let q=[d, d+Duration::days(1), d-Duration::days(1), NaiveDate::from_ymd_opt(y,12,31).unwrap(), NaiveDate::from_ymd_opt(y-1,12,31).unwrap(), NaiveDate::from_ymd_opt(y+3,1,1).unwrap()][r.n(6) as usize];
      if cal.contains(q)!=set.contains(&q) { add("C15 contains", format!("{hist:?} q={q}")); }
      let fa=set.range((std::ops::Bound::Excluded(q),std::ops::Bound::Unbounded)).next().copied();
      if cal.first_after(q)!=fa { add("C15 first_after", format!("{hist:?} q={q} got {:?} exp {:?}", cal.first_after(q), fa)); }
    }
    if cal.count() as usize!=set.len() || cal.iter().collect::<Vec<_>>()!=set.iter().copied().collect::<Vec<_>>() { add("C15 iter/count", format!("{hist:?}")); }
    let mut h2=hist.clone(); h2.reverse(); let cal2: CompactCalendar=h2.into_iter().collect(); if cal2!=cal { add("C15 eq", format!("{hist:?}")); }
    let mut buf=vec![]; cal.serialize(&mut buf).unwrap(); cal2.serialize(&mut buf).unwrap(); let mut rd=buf.as_slice(); let a=CompactCalendar::deserialize(&mut rd).unwrap(); let b=CompactCalendar::deserialize(&mut rd).unwrap(); if a!=cal||b!=cal2||!rd.is_empty(){ add("C15 serde", format!("{hist:?}")); }
  }
  // ---- C20
  for _ in 0..n { let a: Vec<u8>=(0..r.n(7)).map(|_| r.n(6) as u8).collect(); let b: Vec<u8>=(0..r.n(7)).map(|_| r.n(6) as u8).collect();
    let ua: UniqueSortedVec<u8>=a.clone().into(); let ub: UniqueSortedVec<u8>=b.clone().into(); let sa: BTreeSet<u8>=a.iter().copied().collect(); let sb: BTreeSet<u8>=b.iter().copied().collect();
    if ua.as_slice()!=sa.iter().copied().collect::<Vec<_>>() { add("C20 from", format!("{a:?}")); }
    let u=ua.clone().union(ub.clone()); if u.as_slice()!=sa.union(&sb).copied().collect::<Vec<_>>() { add("C20 union", format!("{a:?} {b:?} -> {:?}", u.as_slice())); }
    for x in 0..7u8 { if ua.contains(&x)!=sa.contains(&x) { add("C20 contains", format!("{a:?} {x}")); } if ua.find_first_following(&x).copied()!=sa.range(x..).next().copied() { add("C20 fff", format!("{a:?} {x}")); } } }
  // ---- C17 (a),(d)
  for _ in 0..n/4 {
    let s=expr(&mut r); let Ok(Ok(oh)) = catch_unwind(AssertUnwindSafe(|| OpeningHours::parse(&s))) else { continue };
    let all: BTreeSet<String> = ["c0","c1","c2"].iter().map(|x|x.to_string()).collect();
    let d=NaiveDate::from_ymd_opt(2018,1,1).unwrap()+Duration::days(r.n(2900) as i64);
    let Ok(trs)=catch_unwind(AssertUnwindSafe(|| oh.schedule_at(d).into_iter().collect::<Vec<_>>())) else {continue};
    for t in &trs { let c: Vec<String>=t.comments.iter().map(|x|x.to_string()).collect(); let mut c2=c.clone(); c2.sort(); c2.dedup(); if c!=c2 || !c.iter().all(|x| all.contains(x)) { add("C17 a", format!("{s} @ {d}: {c:?}")); } }
    let from=d.and_hms_opt(r.n(24) as u32, r.n(60) as u32, 0).unwrap();
    if let Ok(Some(first))=catch_unwind(AssertUnwindSafe(|| oh.iter_range(from, from+Duration::days(3)).next())) { let m=ExtendedTime::new(chrono::Timelike::hour(&from) as u8, chrono::Timelike::minute(&from) as u8).unwrap(); let tr=trs.iter().find(|t| t.range.contains(&m)).unwrap(); if tr.comments!=first.comments { add("C17 d", format!("{s} from {from}: {:?} vs {:?}", first.comments, tr.comments)); } }
    let _ = d.year();
  }
  for (k,(c,ex)) in &classes { println!("{c:7} {k}"); for e in ex { println!("          e.g. {e}"); } }
  println!("done");
}
