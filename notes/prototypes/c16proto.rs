
use opening_hours::{OpeningHours, Context};
use chrono::{NaiveDate, Duration};
use std::collections::BTreeMap;
use std::panic::{catch_unwind, AssertUnwindSafe};
struct R(u64);
impl R { fn n(&mut self, m: u64) -> u64 { self.0 ^= self.0 << 13; self.0 ^= self.0 >> 7; self.0 ^= self.0 << 17; self.0 % m }
 fn p(&mut self, pct: u64) -> bool { self.n(100) < pct }
 fn pick<'a>(&mut self, v: &[&'a str]) -> &'a str { v[self.n(v.len() as u64) as usize] } }

const WD: [&str;7] = ["Mo","Tu","We","Th","Fr","Sa","Su"];
const MO: [&str;12] = ["Jan","Feb","Mar","Apr","May","Jun","Jul","Aug","Sep","Oct","Nov","Dec"];

fn year(r:&mut R)->String{ format!("{}", 2018 + r.n(8)) }
fn day_off(r:&mut R)->String{ if r.p(70){String::new()} else { let k=1+r.n(3); format!(" {}{} day{}", if r.p(50){"+"}else{"-"}, k, if k>1{"s"}else{""}) } }
fn date(r:&mut R, wy: bool)->String{ let mut s=String::new(); if wy { s+=&year(r); s+=" "; }
  if r.p(12){ s+="easter"; } else { s+=MO[r.n(12) as usize]; s+=" "; s+=&format!("{}", match r.n(10){0=>29,1=>30,2=>31,3=>1,_=>1+r.n(28)}); }
  if r.p(15){ s+= if r.p(50){"+"}else{"-"}; s+=WD[r.n(7) as usize]; }
  s+=&day_off(r); s }
fn monthday(r:&mut R)->String{ match r.n(7){
  0=>{ let a=r.n(12) as usize; format!("{}{}", if r.p(25){year(r)}else{String::new()}, MO[a]) }
  1=>{ let a=r.n(12) as usize; let b=r.n(12) as usize; format!("{}{}-{}", if r.p(25){year(r)}else{String::new()}, MO[a], MO[b]) }
  2=>{ let wy=r.p(25); date(r,wy) }
  3=>{ let wy=r.p(25); format!("{}+", date(r,wy)) }
  4=>{ let wy=r.p(25); let wy2=r.p(25); format!("{}-{}", date(r,wy), date(r,wy2)) }
  5=>{ let wy=r.p(25); format!("{}{} {}-{}", if wy {year(r)+" "} else {String::new()}, MO[r.n(12) as usize], 1+r.n(28), 1+r.n(31)) }
  _=>{ format!("{}-{}", date(r,false), date(r,false)) } } }
fn yearsel(r:&mut R)->String{ match r.n(5){0=>year(r),1=>format!("{}-{}",year(r),year(r)),2=>format!("{}-{}/{}",year(r),year(r),1+r.n(3)),3=>format!("{}+",year(r)),_=>format!("{},{}",year(r),year(r))} }
fn weeksel(r:&mut R)->String{ let a=1+r.n(53); let b=1+r.n(53); match r.n(4){0=>format!("week {}",a),1=>format!("week {}-{}",a,b),2=>format!("week {}-{}/{}",a,b,1+r.n(4)),_=>format!("week {},{}-{}",a,b.min(a), b.max(a))} }
fn wdsel(r:&mut R)->String{ let mut v=vec![]; for _ in 0..1+r.n(2){ v.push(match r.n(8){
  0=>format!("{}",WD[r.n(7) as usize]),1|2=>format!("{}-{}",WD[r.n(7) as usize],WD[r.n(7) as usize]),
  3=>format!("{}[{}]{}",WD[r.n(7) as usize],1+r.n(5), day_off(r)),4=>format!("{}[-{}]{}",WD[r.n(7) as usize],1+r.n(5), day_off(r)),
  5=>format!("{}[{},-{}]",WD[r.n(7) as usize],1+r.n(5),1+r.n(5)), 6=>format!("PH{}", day_off(r)), _=>"SH".to_string()}); } v.join(",") }
fn time(r:&mut R, ext: bool)->String{ if r.p(12){ let e=r.pick(&["dawn","sunrise","sunset","dusk"]); if r.p(50){e.to_string()} else {format!("({}{}{:02}:{:02})",e,if r.p(50){"+"}else{"-"},r.n(3),r.n(4)*15)} }
  else { let h = if ext { r.n(49) } else { r.n(25) }; let m = if h==24 && !ext || h==48 {0} else {r.n(4)*15}; format!("{:02}:{:02}",h,m) } }
fn span(r:&mut R)->String{ match r.n(10){0=>format!("{}+",time(r,false)),1=>format!("{}-{}+",time(r,false),time(r,true)),_=>format!("{}-{}",time(r,false),time(r,true))} }
fn timesel(r:&mut R)->String{ let mut v=vec![]; for _ in 0..1+r.n(2){v.push(span(r));} v.join(",") }
fn rule(r:&mut R)->String{ let mut s=String::new();
  if r.p(8){ s+="24/7"; } else {
   if r.p(20){ s+=&yearsel(r); s+=" "; }
   if r.p(35){ s+=&monthday(r); s+=" "; }
   if r.p(15){ s+=&weeksel(r); s+=" "; }
   if r.p(50){ s+=&wdsel(r); s+=" "; }
   if r.p(75){ s+=&timesel(r); s+=" "; } }
  if r.p(40){ s+=r.pick(&["open","closed","off","unknown"]); s+=" "; }
  if r.p(15){ s+=&format!("\"c{}\"", r.n(3)); }
  s.trim().to_string() }
fn expr(r:&mut R)->String{ let mut s=rule(r); for _ in 0..r.n(4){ s+=r.pick(&["; ","; ","; ",", "," || "]); s+=&rule(r);} s }


fn main(){
  let n: u64 = std::env::args().nth(1).unwrap().parse().unwrap();
  let seed: u64 = std::env::args().nth(2).unwrap().parse().unwrap();
  let mut r=R(seed*0x9E3779B97F4A7C15+1);
  std::panic::set_hook(Box::new(|_|{}));
  let mut classes: BTreeMap<String,(u64,Vec<String>)> = BTreeMap::new();
  let d0=NaiveDate::from_ymd_opt(2017,12,25).unwrap();
  let mut parsed=0u64; let mut nontriv=0u64;
  for _ in 0..n {
    let s=expr(&mut r);
    let Ok(Ok(oh)) = catch_unwind(AssertUnwindSafe(|| OpeningHours::parse(&s))) else { continue };
    parsed+=1;
    for _ in 0..6 {
      let t=(d0+Duration::days(r.n(365*9) as i64)).and_hms_opt(r.n(24) as u32, r.n(60) as u32, 0).unwrap();
      let Ok(first)=catch_unwind(AssertUnwindSafe(|| oh.iter_range(t, t+Duration::days(1100)).next())) else { break };
      let Some(first)=first else { break };
      if first.range.end >= t+Duration::days(1100) { continue; }
      let exact=Some(first.range.end);
      // bound choice
      let b = match (exact, r.n(4)) { (Some(x),0) => (x-t), (Some(x),1)=> (x-t)+Duration::hours(24), (Some(x),2)=>(x-t)-Duration::minutes(1), _=> Duration::minutes(1440 + r.n(60*24*800) as i64) };
      let b = if b < Duration::days(1) { Duration::days(1) } else { b };
      let ohb=oh.clone().with_context(Context::default().approx_bound_interval_size(b));
      let Ok(approx)=catch_unwind(AssertUnwindSafe(|| ohb.next_change(t))) else { break };
      let st_ok = oh.state(t)==ohb.state(t);
      let mut err=None;
      if !st_ok { err=Some("state differs"); }
      if approx.is_some() && approx!=exact { err=Some("approx not in {exact,None}"); }
      match exact { Some(x) => { if x-t <= b-Duration::hours(24) && approx!=exact { err=Some("should be exact"); } if x-t > b && approx.is_some() { err=Some("should be none"); } if (x-t-b).num_hours().abs()<48 { nontriv+=1; } }, None => { if approx.is_some() { err=Some("exact none but approx some"); } } }
      if let Some(e)=err { let c=classes.entry(e.to_string()).or_insert((0,vec![])); c.0+=1; c.1.push(format!("{s} @ {t} B={}min exact={:?} approx={:?}", b.num_minutes(), exact, approx)); c.1.sort_by_key(|x|x.len()); c.1.dedup(); c.1.truncate(10); break; }
    }
  }
  println!("generated {n} parsed {parsed} nontrivial {nontriv}");
  for (k,(c,ex)) in &classes { println!("{c:7} {k}"); for e in ex { println!("          e.g. {e}"); } }
}
