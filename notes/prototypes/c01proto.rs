
#[path = "../model.rs"] mod model;
use opening_hours::{OpeningHours, Context, ContextHolidays};
use chrono::{NaiveDate, Duration, Datelike};
use std::collections::{BTreeMap, BTreeSet};
use std::panic::{catch_unwind, AssertUnwindSafe};
use std::sync::Arc;
use model::K;
struct R(u64);
impl R { fn n(&mut self, m: u64) -> u64 { self.0 ^= self.0 << 13; self.0 ^= self.0 >> 7; self.0 ^= self.0 << 17; self.0 % m }
 fn p(&mut self, pct: u64) -> bool { self.n(100) < pct }
 fn pick<'a>(&mut self, v: &[&'a str]) -> &'a str { v[self.n(v.len() as u64) as usize] } }

const WD: [&str;7] = ["Mo","Tu","We","Th","Fr","Sa","Su"];
const MO: [&str;12] = ["Jan","Feb","Mar","Apr","May","Jun","Jul","Aug","Sep","Oct","Nov","Dec"];

fn year(r:&mut R)->String{ format!("{}", 2018 + r.n(8)) }
fn day_off(r:&mut R)->String{ if r.p(70){String::new()} else { let k=1+r.n(3); format!(" {}{} day{}", if r.p(50){"+"}else{"-"}, k, if k>1{"s"}else{""}) } }
fn date(r:&mut R, wy: bool)->String{ let mut s=String::new(); if wy { s+=&year(r); s+=" "; }
  if r.p(12){ s+="easter"; } else { s+=MO[r.n(12) as usize]; s+=" "; s+=&format!("{}", match r.n(10){0=>29,1=>30,2=>31,3=>1,_=>1+r.n(28)}); }
  if r.p(15){ s+= if r.p(50){"+"}else{"-"}; s+=WD[r.n(7) as usize]; }
  s+=&day_off(r); s }
fn monthday(r:&mut R)->String{ match r.n(7){
  0=>{ let a=r.n(12) as usize; format!("{}{}", if r.p(25){year(r)}else{String::new()}, MO[a]) }
  1=>{ let a=r.n(12) as usize; let b=r.n(12) as usize; format!("{}{}-{}", if r.p(25){year(r)}else{String::new()}, MO[a], MO[b]) }
  2=>{ let wy=r.p(25); date(r,wy) }
  3=>{ let wy=r.p(25); format!("{}+", date(r,wy)) }
  4=>{ let wy=r.p(25); let wy2=r.p(25); format!("{}-{}", date(r,wy), date(r,wy2)) }
  5=>{ let wy=r.p(25); format!("{}{} {}-{}", if wy {year(r)+" "} else {String::new()}, MO[r.n(12) as usize], 1+r.n(28), 1+r.n(31)) }
  _=>{ format!("{}-{}", date(r,false), date(r,false)) } } }
fn yearsel(r:&mut R)->String{ match r.n(5){0=>year(r),1=>format!("{}-{}",year(r),year(r)),2=>format!("{}-{}/{}",year(r),year(r),1+r.n(3)),3=>format!("{}+",year(r)),_=>format!("{},{}",year(r),year(r))} }
fn weeksel(r:&mut R)->String{ let a=1+r.n(53); let b=1+r.n(53); match r.n(4){0=>format!("week {}",a),1=>format!("week {}-{}",a,b),2=>format!("week {}-{}/{}",a,b,1+r.n(4)),_=>format!("week {},{}-{}",a,b.min(a), b.max(a))} }
fn wdsel(r:&mut R)->String{ let mut v=vec![]; for _ in 0..1+r.n(2){ v.push(match r.n(8){
  0=>format!("{}",WD[r.n(7) as usize]),1|2=>format!("{}-{}",WD[r.n(7) as usize],WD[r.n(7) as usize]),
  3=>format!("{}[{}]{}",WD[r.n(7) as usize],1+r.n(5), day_off(r)),4=>format!("{}[-{}]{}",WD[r.n(7) as usize],1+r.n(5), day_off(r)),
  5=>format!("{}[{},-{}]",WD[r.n(7) as usize],1+r.n(5),1+r.n(5)), 6=>format!("PH{}", day_off(r)), _=>"SH".to_string()}); } v.join(",") }
fn time(r:&mut R, ext: bool)->String{ if r.p(12){ let e=r.pick(&["dawn","sunrise","sunset","dusk"]); if r.p(50){e.to_string()} else {format!("({}{}{:02}:{:02})",e,if r.p(50){"+"}else{"-"},r.n(3),r.n(4)*15)} }
  else { let h = if ext { r.n(49) } else { r.n(25) }; let m = if h==24 && !ext || h==48 {0} else {r.n(4)*15}; format!("{:02}:{:02}",h,m) } }
fn span(r:&mut R)->String{ match r.n(10){0=>format!("{}+",time(r,false)),1=>format!("{}-{}+",time(r,false),time(r,true)),_=>format!("{}-{}",time(r,false),time(r,true))} }
fn timesel(r:&mut R)->String{ let mut v=vec![]; for _ in 0..1+r.n(2){v.push(span(r));} v.join(",") }
fn rule(r:&mut R)->String{ let mut s=String::new();
  if r.p(8){ s+="24/7"; } else {
   if r.p(20){ s+=&yearsel(r); s+=" "; }
   if r.p(35){ s+=&monthday(r); s+=" "; }
   if r.p(15){ s+=&weeksel(r); s+=" "; }
   if r.p(50){ s+=&wdsel(r); s+=" "; }
   if r.p(75){ s+=&timesel(r); s+=" "; } }
  if r.p(40){ s+=r.pick(&["open","closed","off","unknown"]); s+=" "; }
  if r.p(15){ s+=&format!("\"c{}\"", r.n(3)); }
  s.trim().to_string() }
fn expr(r:&mut R)->String{ let mut s=rule(r); for _ in 0..r.n(4){ s+=r.pick(&["; ","; ","; ",", "," || "]); s+=&rule(r);} s }


fn main(){
  let n: u64 = std::env::args().nth(1).unwrap().parse().unwrap();
  let seed: u64 = std::env::args().nth(2).unwrap().parse().unwrap();
  let mut r=R(seed*0x9E3779B97F4A7C15+1);
  std::panic::set_hook(Box::new(|_|{}));
  let mut classes: BTreeMap<String,(u64,Vec<String>)> = BTreeMap::new();
  let d0=NaiveDate::from_ymd_opt(2017,12,25).unwrap();
  // calendars
  let mut ph=BTreeSet::new(); let mut sh=BTreeSet::new();
  let mut cph=compact_calendar::CompactCalendar::default(); let mut csh=compact_calendar::CompactCalendar::default();
  for i in 0..400 { let d=d0+Duration::days((i*37+11)%3300); ph.insert(d); cph.insert(d); }
  for i in 0..60 { for k in 0..9 { let d=d0+Duration::days((i*61+5)%3300 + k); sh.insert(d); csh.insert(d);} }
  let mctx=model::Ctx{ph,sh};
  let ctx=Context::default().with_holidays(ContextHolidays::new(Arc::new(cph),Arc::new(csh)));
  let mut parsed=0u64; let mut cmp=0u64;
  for _ in 0..n {
    let s=expr(&mut r);
    let Ok(Ok(oh)) = catch_unwind(AssertUnwindSafe(|| OpeningHours::parse(&s))) else { continue };
    let ast=opening_hours_syntax::parse(&s).unwrap();
    {
      use opening_hours_syntax::rules::day as ds;
      let maxd=|m: ds::Month| match m as u32 {2=>29,4|6|9|11=>30,_=>31};
      let never=|d:&ds::Date| matches!(d, ds::Date::Fixed{month,day,..} if (*day as u32)>maxd(*month));
      let hasy=|d:&ds::Date| matches!(d, ds::Date::Fixed{year:Some(_),..}|ds::Date::Easter{year:Some(_)});
      let bad = ast.rules.iter().any(|r| r.day_selector.monthday.iter().any(|m| match m { ds::MonthdayRange::Date{start,end} => ((never(&start.0)||never(&end.0)) && start.0!=end.0)||(!hasy(&start.0)&&hasy(&end.0)) || (start.1.wday_offset!=ds::WeekDayOffset::None && start.1.day_offset!=0) || (end.1.wday_offset!=ds::WeekDayOffset::None && end.1.day_offset!=0), _=>false }));
      if bad { continue; }
    }
    let oh=oh.with_context(ctx.clone());
    parsed+=1;
    for _ in 0..30 {
      let d=d0+Duration::days(r.n(365*9) as i64);
      let got = catch_unwind(AssertUnwindSafe(|| { let mut a=[K::C;1440]; for t in oh.schedule_at(d){ let k=match t.kind{ opening_hours::RuleKind::Open=>K::O, opening_hours::RuleKind::Closed=>K::C, opening_hours::RuleKind::Unknown=>K::U}; for m in t.range.start.mins_from_midnight()..t.range.end.mins_from_midnight().min(1440){ a[m as usize]=k; } } a }));
      let Ok(got)=got else { let e=classes.entry("PANIC".into()).or_insert((0,vec![])); e.0+=1; e.1.push(s.clone()); e.1.sort_by_key(|x|x.len()); e.1.dedup(); e.1.truncate(8); break };
      let exp=model::eval_day(&ast,d,&mctx); cmp+=1;
      if got!=exp { let m=(0..1440).find(|m| got[*m]!=exp[*m]).unwrap();
        let e=classes.entry("DIFF".into()).or_insert((0,vec![])); e.0+=1; e.1.push(format!("{s} @ {d} {:?} min {}:{:02} got {:?} exp {:?}", d.weekday(), m/60,m%60, got[m],exp[m])); e.1.sort_by_key(|x|x.len()); e.1.dedup(); e.1.truncate(25); break; }
    }
  }
  println!("generated {n} parsed {parsed} compared {cmp}");
  for (k,(c,ex)) in &classes { println!("{c:7} {k}"); for e in ex { println!("          e.g. {e}"); } }
}
