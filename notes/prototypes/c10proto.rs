use opening_hours::localization::Country;
use chrono::NaiveDate;
use std::collections::{BTreeMap, BTreeSet};
fn load(p:&str)->BTreeMap<String,BTreeSet<NaiveDate>>{ let mut m=BTreeMap::new(); for l in std::fs::read_to_string(p).unwrap().lines(){ let (r,d)=l.split_once(' ').unwrap(); m.entry(r.to_string()).or_insert_with(BTreeSet::new).insert(NaiveDate::parse_from_str(d,"%Y-%m-%d").unwrap()); } m }
fn main(){ let pubm=load("/repo/opening-hours/data/holidays_public.txt"); let schm=load("/repo/opening-hours/data/holidays_school.txt"); let empty=BTreeSet::new();
 let mut bad=0; let mut checks=0u64;
 for c in Country::ALL { let h=c.holidays(); for (cal,src,name) in [(h.get_public(), pubm.get(c.iso_code()).unwrap_or(&empty),"public"),(h.get_school(), schm.get(c.iso_code()).unwrap_or(&empty),"school")] {
   let got: BTreeSet<NaiveDate>=cal.iter().collect(); if &got!=src { bad+=1; println!("{} {name}: differs got {} exp {}", c.iso_code(), got.len(), src.len()); }
   let mut d=NaiveDate::from_ymd_opt(1990,1,1).unwrap(); let end=NaiveDate::from_ymd_opt(2085,12,31).unwrap(); while d<=end { if cal.contains(d)!=src.contains(&d) { bad+=1; } checks+=1; d=d.succ_opt().unwrap(); }
   if cal.count() as usize!=src.len() { bad+=1; println!("{} count", c.iso_code()); } }
   assert_eq!(c.iso_code().parse::<Country>().unwrap(), c); }
 for a in b'A'..=b'Z' { for b in b'A'..=b'Z' { let s=String::from_utf8(vec![a,b]).unwrap(); let known=Country::ALL.iter().any(|c| c.iso_code()==s); assert_eq!(s.parse::<Country>().is_ok(), known, "{s}"); assert!(s.to_lowercase().parse::<Country>().is_err()); } }
 println!("bad {bad} checks {checks} regions pub {} sch {}", pubm.len(), schm.len()); }
