import datetime, sys
from zoneinfo import ZoneInfo, available_timezones
from hypothesis import given, settings, strategies as st, seed, HealthCheck
import opening_hours as oh

ZONES = sorted(z for z in available_timezones() if '/' in z and not z.startswith(('posix','right','Etc/','SystemV')))[:400]
EXPRS = ["Mo-Fr 10:00-18:00; Sa 10:00-12:00", "22:00-02:00", "sunrise-sunset", "Jan-Mar 01:30-02:30,03:15-05:00; PH off", "week 1-53/2 Mo[1] 10:00-26:30 unknown \"c\"", "24/7", "2024 Oct 27 01:00-03:30", "Su closed || open"]
naive_dt = st.one_of(st.datetimes(min_value=datetime.datetime(1990,1,1), max_value=datetime.datetime(2030,12,31,23,59)), st.datetimes(min_value=datetime.datetime(9999,12,1), max_value=datetime.datetime(9999,12,31,23,59)), st.datetimes(min_value=datetime.datetime(1,1,1), max_value=datetime.datetime(1,1,3)))
panics = []
@seed(int(sys.argv[1]))
@settings(max_examples=int(sys.argv[2]), deadline=None, database=None, suppress_health_check=list(HealthCheck))
@given(e=st.sampled_from(EXPRS), z=st.sampled_from(ZONES), z2=st.sampled_from(ZONES), dt=naive_dt, fold=st.integers(0,1), country=st.sampled_from([None,"FR","US","DE"]))
def t(e, z, z2, dt, fold, country):
    tz = ZoneInfo(z); tz2 = ZoneInfo(z2)
    try:
        a = oh.OpeningHours(e, timezone=tz, country=country)
        n = oh.OpeningHours(e, country=country)
    except (ValueError, TypeError) as ex:
        return  # zone unknown to chrono-tz
    aware = dt.replace(tzinfo=tz2, fold=fold)
    try:
        local = aware.astimezone(tz)
    except OverflowError:
        return
    try:
        sa = a.state(aware)
    except (ValueError, TypeError) as ex:
        return  # ambiguous / nonexistent input or unknown zone rejected by pyo3
    except BaseException as ex:
        if type(ex).__name__ == 'PanicException': panics.append((e,z,z2,dt,fold,str(ex)[:80])); return
        raise
    # python-side local wall clock may differ from chrono-tz's if tzdata versions differ; compare only when consistent
    sn = n.state(local.replace(tzinfo=None))
    assert str(sa) == str(sn), (e, z, z2, dt, fold, sa, sn)
    try:
        nca = a.next_change(aware); ncn = n.next_change(local.replace(tzinfo=None))
    except BaseException as ex:
        if type(ex).__name__ == 'PanicException': panics.append((e,z,z2,dt,fold,str(ex)[:80])); return
        raise
    if nca is None or ncn is None:
        assert nca is None and ncn is None, (e,z,dt,nca,ncn)
    else:
        assert nca.tzinfo is not None and nca.tzinfo.key == z, (nca, z)
        # wall clock equal unless gap mapping moved it forward
        assert nca.replace(tzinfo=None) >= ncn, (e,z,dt,nca,ncn)
try:
    t()
    print("OK")
except AssertionError as ex:
    print("ASSERT", ex)
print("panics", len(panics), panics[:5])
