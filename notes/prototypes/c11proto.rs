use opening_hours::{OpeningHours, Context};
use opening_hours::localization::{Coordinates, Localize};
use chrono::{NaiveDate, NaiveDateTime, Duration, TimeZone, Datelike, Timelike, Utc};
use std::collections::BTreeMap;
struct R(u64);
impl R { fn n(&mut self, m: u64) -> u64 { self.0 ^= self.0 << 13; self.0 ^= self.0 >> 7; self.0 ^= self.0 << 17; self.0 % m } fn f(&mut self)->f64{ self.n(1<<30) as f64/(1u64<<30) as f64 } }
// equation of time (minutes), day of year n (1..366)
fn eot(n: f64)->f64{ let b=2.0*std::f64::consts::PI*(n-81.0)/364.0; 9.87*(2.0*b).sin()-7.53*b.cos()-1.5*b.sin() }
fn start_of(oh:&OpeningHours<opening_hours::localization::TzLocation<chrono_tz::Tz>>, d:NaiveDate)->Vec<(u16,u16)>{ oh.schedule_at(d).into_iter().filter(|t| t.kind==opening_hours::RuleKind::Open).map(|t|(t.range.start.mins_from_midnight(),t.range.end.mins_from_midnight())).collect() }
fn main(){
  let n: u64 = std::env::args().nth(1).unwrap().parse().unwrap();
  let mut r=R(std::env::args().nth(2).unwrap().parse::<u64>().unwrap()*0x9E3779B97F4A7C15+1);
  let mut classes: BTreeMap<String,(u64,Vec<String>)> = BTreeMap::new();
  let ev=["dawn","sunrise","sunset","dusk"];
  let ohs: Vec<OpeningHours>=ev.iter().map(|e| OpeningHours::parse(&format!("{e}-24:00")).unwrap()).collect(); // 24h span starting at event: today part = [event,24:00)
  let day=OpeningHours::parse("sunrise-sunset").unwrap();
  let mut maxdev=0.0f64;
  for _ in 0..n {
    let lat=(r.f()*2.0-1.0).asin().to_degrees(); if lat.abs()>60.0 { continue; }
    let lon=r.f()*360.0-180.0;
    let c=Coordinates::new(lat,lon).unwrap(); let ctx=Context::from_coords(c); let tz=*ctx.locale.get_timezone();
    let d=NaiveDate::from_ymd_opt(1900+r.n(201) as i32,1,1).unwrap()+Duration::days(r.n(365) as i64);
    // event local times (minutes) read from schedules
    let mut t=[0i64;4];
    for i in 0..4 { let oh=ohs[i].clone().with_context(ctx.clone()); let s=start_of(&oh,d); // today's part [event,24:00) plus maybe spill from yesterday [0,event_y)
      let today=s.iter().find(|(_,b)| *b==1440).map(|(a,_)| *a as i64); match today { Some(a)=>t[i]=a, None=>{ let c=classes.entry("no today part".into()).or_insert((0,vec![])); c.0+=1; c.1.push(format!("{lat:.3},{lon:.3} {tz} {d} {} {:?}",ev[i],s)); c.1.truncate(5); t[i]=-1; } } }
    // solar noon in local wall clock minutes
    let noon_utc_min = 720.0 - 4.0*lon - eot(d.ordinal() as f64); // minutes after 00:00 UTC of date d (may be <0 or >1440)
    let noon_utc = d.and_hms_opt(0,0,0).unwrap() + Duration::seconds((noon_utc_min*60.0) as i64);
    let noon_local = tz.from_utc_datetime(&noon_utc).naive_local();
    let nl = (noon_local.hour()*60+noon_local.minute()) as i64;
    // re-anchor events around noon: map each event minute m to m + k*1440 closest to expected side
    let anchor=|m:i64, lo:i64, hi:i64| -> i64 { let mut x=m; while x<lo { x+=1440 } while x>=hi { x-=1440 } x };
    let dawn=anchor(t[0], nl-720, nl+720); let sunrise=anchor(t[1], nl-720, nl+720); let sunset=anchor(t[2], nl-720, nl+720); let dusk=anchor(t[3], nl-720, nl+720);
    let ok = dawn<sunrise && sunrise+30<nl && nl<sunset-30 && sunset<dusk;
    let mid=(sunrise+sunset) as f64/2.0; maxdev=maxdev.max((mid-nl as f64).abs());
    if !ok { let c=classes.entry("order".into()).or_insert((0,vec![])); c.0+=1; c.1.push(format!("{lat:.3},{lon:.3} {tz} {d}: dawn {dawn} sunrise {sunrise} noon {nl} sunset {sunset} dusk {dusk} raw {:?}",t)); c.1.truncate(12); }
    // open at noon / closed at midnight
    let oh=day.clone().with_context(ctx.clone());
    let noon_dt=tz.from_utc_datetime(&noon_utc); let mid_dt=tz.from_utc_datetime(&(noon_utc+Duration::hours(12)));
    if !oh.is_open(noon_dt) { let c=classes.entry("closed at noon".into()).or_insert((0,vec![])); c.0+=1; c.1.push(format!("{lat:.3},{lon:.3} {tz} {noon_dt}")); c.1.truncate(12); }
    if !oh.is_closed(mid_dt) { let c=classes.entry("open at midnight".into()).or_insert((0,vec![])); c.0+=1; c.1.push(format!("{lat:.3},{lon:.3} {tz} {mid_dt} sched {:?} {:?}", start_of(&oh, mid_dt.date_naive()), start_of(&oh, mid_dt.date_naive().pred_opt().unwrap()))); c.1.truncate(12); }
  }
  println!("max |midday-noon| = {maxdev:.1} min");
  for (k,(c,ex)) in &classes { println!("{c:7} {k}"); for e in ex { println!("          e.g. {e}"); } }
  let _ = (Utc, NaiveDateTime::MIN);
}
