#!/bin/bash
# revert_check.sh : for every "fixed:" line of known_findings.txt, reverse-applies the fix commit to /repo's working
# tree (when it still reverse-applies cleanly), runs the property's quick check and expects exit 1 with the pinned
# replay among the violations. Restores /repo afterwards. Output: one line per fix.
set -u
cd /verif
git -C /repo diff --quiet || { echo "/repo is dirty"; exit 2; }
grep '^fixed:' known_findings.txt | while read -r line; do
    prop=$(echo "$line" | sed -n 's/.*property=\([A-Z0-9]*\).*/\1/p')
    commit=$(echo "$line" | awk '{print $3}')
    replay=$(echo "$line" | sed -n 's/.*replay=\([^ ]*\).*/\1/p')
    rprop=$(echo "$replay" | cut -d/ -f2)
    if ! git -C /repo diff "$commit^" "$commit" | git -C /repo apply -R --check 2>/dev/null; then
        echo "$commit $prop SKIP (does not reverse-apply on top of later fixes)"
        continue
    fi
    git -C /repo diff "$commit^" "$commit" | git -C /repo apply -R
    out=$(VERIF_SEED=0 ./run.sh "$rprop" quick 2>/dev/null); rc=$?
    git -C /repo checkout -q -- .
    hit=$(echo "$out" | grep -c "replay=$replay")
    echo "$commit $prop via $rprop rc=$rc pinned_replay_fails=$hit $(echo "$out" | grep -m1 -A1 '^VIOLATION' | tail -1 | cut -c1-160)"
    rm -rf /verif/replays/*/new
done
