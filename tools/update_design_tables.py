#!/usr/bin/env python3
"""Regenerates the generated tables of DESIGN.md (seeded changes, last-run coverage) between their markers."""
import subprocess, os, re
root = os.path.dirname(os.path.dirname(os.path.abspath(__file__)))
p = os.path.join(root, "DESIGN.md")
s = open(p).read()
def regen(s, begin, end, cmd, indent):
    out = subprocess.run(["python3", os.path.join(root, "tools", cmd)], capture_output=True, text=True).stdout.strip().splitlines()
    body = "\n".join(indent + l for l in out)
    pat = re.compile(re.escape(begin) + r".*?" + re.escape(end), re.S)
    assert pat.search(s), begin
    return pat.sub(lambda m: begin + "\n" + body + "\n" + indent + end.strip(), s)
s = regen(s, "<!-- SEEDED-TABLE-BEGIN (regenerate with tools/seed_table.py) -->", "  <!-- SEEDED-TABLE-END -->", "seed_table.py", "  ")
if "<!-- ASBUILT-TABLE-BEGIN -->" in s:
    s = regen(s, "<!-- ASBUILT-TABLE-BEGIN -->", "<!-- ASBUILT-TABLE-END -->", "asbuilt_table.py", "")
open(p, "w").write(s)
