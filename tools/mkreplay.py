#!/usr/bin/env python3
"""mkreplay.py <property> <check> <name> <text> [message]  -> replays/<property>/<name>.json (text-based pinned replay)"""
import json, os, sys
prop, check, name, text = sys.argv[1:5]
msg = sys.argv[5] if len(sys.argv) > 5 else ""
root = os.path.dirname(os.path.dirname(os.path.abspath(__file__)))
d = os.path.join(root, "replays", prop)
os.makedirs(d, exist_ok=True)
json.dump({"property": prop, "check": check, "text": text, "rendered": text, "message": msg}, open(os.path.join(d, name + ".json"), "w"), indent=1)
