#!/usr/bin/env python3
"""Regenerates /verif/MANIFEST.json from the table below (single source of truth)."""
import json, os, subprocess

ROOT = os.path.dirname(os.path.dirname(os.path.abspath(__file__)))

# id -> (technique, level text, level note, design_ref)
CHECKS = {
    "C19": (
        "exhaustive enumeration against integer arithmetic (property-based, finite domain)",
        "Every (hour, minute) in u8 x u8, every u16 minute count, all 2881 valid values x every i16 / i8 offset, all ordered pairs of valid values and every second of a day are enumerated and compared with plain integer arithmetic; the domain of the property is finite and covered completely on every run.",
        "Trusted: integer arithmetic as specification, chrono::NaiveTime for clock-time conversion.",
        "DESIGN.md section 3, C19",
    ),
    "C20": (
        "exhaustive small-scope enumeration + generated longer vectors against a BTreeSet model",
        "All 29.8 M ordered pairs of vectors of length <= 6 over a 4-symbol alphabet are enumerated on every run (From<Vec>, union in both orders, re-union, contains, find_first_following for all queries) and compared with BTreeSet; generated pairs up to length 200 and Arc<str> elements (incl. to_ref) extend this beyond the enumerated scope.",
        "Trusted: std BTreeSet as reference model. Beyond length 6 the check is sampled, not exhaustive.",
        "DESIGN.md section 3, C20",
    ),
}

CHECKS["C14"] = (
    "model-based testing: generated from_ranges/addition trees against a per-minute last-writer-wins model",
    "Generated trees of additions over from_ranges leaves (overlapping, nested, adjacent, empty, inverted ranges; three kinds), left- and right-nested, are compared after every step with a per-minute model: stored ranges disjoint/increasing/non-empty, painted minutes, is_empty, and the gap-free differing-neighbour tiling produced by iteration.",
    "Trusted: hook H2 exposes the stored ranges; the per-minute model is the specification. Sampled, not exhaustive; ranges lie on a mixed hour/quarter/minute grid.",
    "DESIGN.md section 3, C14",
)
CHECKS["C15"] = (
    "stateful model-based testing against BTreeSet + exhaustive small-scope enumeration for CompactMonth",
    "Generated operation histories (insert, contains, first_after, iter/count, equality under permutation and against a strict subset, serialize/deserialize, concatenated streams with byte accounting) are compared step by step with a BTreeSet model for CompactCalendar and CompactYear; CompactMonth is enumerated exhaustively for all day sets of size <= 3 and >= 28 x all 31 queries.",
    "Trusted: BTreeSet and chrono date ordering. Year distances bounded to a few thousand years per history.",
    "DESIGN.md section 3, C15",
)

CHECKS["C01"] = (
    "property-based differential testing against an independent reference model (naive per-minute evaluator), plus full-range sweeps",
    "Generated expressions (all selector kinds and their interplay through the three rule operators) x generated holiday calendars x expression-aware dates are evaluated by schedule_at / state and by a naive reference evaluator written from the documented semantics; the thorough tier additionally compares 192 generated expressions on every single day from 1900-01-01 to 9999-12-31.",
    "Trusted: the reference model (DESIGN.md section 2) as the documented semantics; inputs outside its decided domain (carve-outs U1-U10) are skipped and counted. Sampled, not exhaustive, over expressions.",
    "DESIGN.md sections 2 and 3, C01",
)
CHECKS["C05"] = (
    "generator-as-oracle property-based testing (sentence generator with denotation) + boundary-value templates for rejection",
    "A grammar-directed generator produces each sentence together with the syntax tree it denotes (built without the parser), under every syntactic variant the grammar documents; parse must return exactly that tree. 40 one-field templates filled with in-range and out-of-range boundary values, and the property's list of rejected / unsupported forms, check rejection.",
    "Trusted: the generator's denotation of each construct (written from the OSM grammar, the grammar file's comments and parser tests). Forms neither promised nor listed as rejected are not asserted.",
    "DESIGN.md section 3, C05",
)
CHECKS["C06"] = (
    "metamorphic round-trip testing: print, reparse, compare evaluations",
    "For generated expressions and their normal forms the printed text must parse, and the reparsed expression must yield the same merged (kind, comment-fragment) ranges on expression-aware dates under generated holiday calendars.",
    "Trusted: the library's pointwise evaluation on both sides (its correctness is C01). Comments compared as sets of ', '-separated fragments. Python str/repr forms are exercised by the C12 driver.",
    "DESIGN.md section 3, C06",
)
CHECKS["C07"] = (
    "metamorphic testing: normalize() must preserve pointwise evaluation, plus full-range sweeps",
    "Generated expressions biased towards the constructs the normaliser rewrites (and mixes with ones it leaves alone) are compared with their normal form on every minute of expression-aware dates (incl. days after matching days) and on state(); the thorough tier compares 96 rewritten expressions on every day 1900..9999.",
    "Trusted: the library's pointwise evaluation as the oracle on both sides.",
    "DESIGN.md section 3, C07",
)
CHECKS["C13"] = (
    "property-based testing of algebraic laws: idempotence, determinism, printability of normal forms",
    "normalize(normalize(e)) == normalize(e) for generated expressions; clones (also on another thread), the OpeningHours wrapper and a second parse of the same text normalise to the same value; the normal form satisfies the C06 print/reparse relation.",
    "Trusted: the library's derived PartialEq on expressions.",
    "DESIGN.md section 3, C13",
)

CHECKS["C02"] = (
    "differential property-based testing: derived interval stream vs pointwise daily evaluation, plus whole-range streams",
    "For generated expressions, calendars and windows (any position incl. far outside the supported range, sub-second bounds, up to 12 years; a UTC locale with coordinates for day-varying sun events) the complete list of intervals from iter_range must equal the concatenated, clipped and merged daily schedules; the thorough tier compares iter_from(1900) with all 2.96 M days for 256 expressions. Hook H1 shows whether days were actually skipped.",
    "Trusted: schedule_at as pointwise oracle (C01). Interval-size bounds are excluded (C16), zone transitions are C09.",
    "DESIGN.md section 3, C02",
)
CHECKS["C03"] = (
    "differential property-based testing against a brute-force forward scan; metamorphic relation inside an interval",
    "state and its three predicates are compared with the minute of the daily schedule; next_change with a brute-force scan of daily schedules (exact in the 9984-9999 band and in the uncapped thorough sub-check, 1 200-day horizon plus boundary/interior probes elsewhere); strictly after t, never >= 10000-01-01, identical for instants inside the interval.",
    "Trusted: schedule_at as pointwise oracle. Quick tier skips (and counts) calls that need more than 60 000 day schedules.",
    "DESIGN.md section 3, C03",
)
CHECKS["C08"] = (
    "property-based testing with a direct oracle on instants concentrated at and far outside the bounds of the supported range",
    "For expressions whose selectors straddle 1900 / 9999 and instants within days, minutes and seconds of both bounds or far outside: closed outside, intervals inside [from, min(to, 10000-01-01)] and gap-free, next_change never before 1900 nor >= 10000 and exactly the first non-closed instant when starting before 1900.",
    "Trusted: schedule_at for the exact next_change comparisons; calls over 60 000 day schedules are skipped and counted.",
    "DESIGN.md section 3, C08",
)
CHECKS["C16"] = (
    "differential property-based testing: bounded vs exact next_change with bounds placed at the decision thresholds",
    "For generated expressions and instants the bound B is placed at, one minute around, and 24 h (+-1 min) beyond the distance of the exact next change, or drawn log-uniformly from 1 day to 60 years; the bounded answer must be exact or none, exact when the change lies within B - 24 h, none when beyond B, and state must be unchanged.",
    "Trusted: forward scan of schedule_at reaching beyond t + B as the exact answer.",
    "DESIGN.md section 3, C16",
)
CHECKS["C17"] = (
    "property-based testing: invariants on generated expressions + provenance on expressions constructed so that the contributing rule is known",
    "Comments of every schedule range and interval are strictly increasing and drawn from the expression's rules, absent outside 1900..9999 and on days no rule reaches (all rules year-bounded, probes years away); constructed additional rules with separated spans must each carry exactly their own comment set; the first interval carries the comments of the schedule period containing the start instant.",
    "Trusted: provenance is asserted only where known by construction.",
    "DESIGN.md section 3, C17",
)

CHECKS["C04"] = (
    "fuzzing with a crash/work-bound oracle: structured hostile-value generation, near-valid mutation, token soups (+ coverage-guided libFuzzer in the thorough tier)",
    "Every public operation (parse, print, reparse, normalize, schedule_at, state, next_change, range iteration) is run under catch_unwind on sentences with hostile values, mutated sentences and token soups, in contexts over all IANA zones, extreme coordinates and interval-size bounds, at instants over the whole chrono range; bounded work is measured deterministically as day schedules per call (hook H1).",
    "Trusted: hook H1 counts work faithfully. Sampled search; a panic behind a shape no generator reaches stays undetected. Debug assertions and overflow checks are ON in the harness build.",
    "DESIGN.md section 3, C04",
)

CHECKS["C09"] = (
    "differential property-based testing (zone context vs naive evaluation) with an independently written local-time mapping oracle, inputs targeted at DST gaps and folds of all IANA zones",
    "For zones drawn from all 596 chrono-tz zones, years 1900-2100 and their actual offset transitions, instants within hours, minutes and seconds of a transition (given in another zone) are evaluated with the zone context and, at their wall-clock time, without location; states, next changes and intervals must agree, every returned instant must equal the harness' own mapping (later instant when ambiguous, transition instant inside a gap), and bounds must not go backwards.",
    "Trusted: chrono-tz offset lookup; NoLocation evaluation as the reference side. Calls over 20 000 day schedules are skipped and counted.",
    "DESIGN.md section 3, C09",
)
CHECKS["C10"] = (
    "exhaustive enumeration (differential against the source data files read by an independent parser) + generated selector checks",
    "All 115 countries x {public, school}: iteration, count, membership on every date 1990-2085 and every listed date, first_after; all 676 two-letter codes in 7 spellings; PH / SH on every date 1998-2077 for every country; generated shifted-PH checks. The finite domain of the property is covered completely on every run.",
    "Trusted: the data files in /repo/opening-hours/data as source of truth, read at run time from the working tree.",
    "DESIGN.md section 3, C10",
)
CHECKS["C11"] = (
    "property-based testing with a physical validity oracle (ordering around an independently computed solar noon) and boundary-value acceptance testing",
    "Documented default event times without coordinates (any zone, any date); for coordinates within 60 degrees of latitude the four events read from schedules must be ordered around a solar noon computed by the harness from longitude and the equation of time, with stated tolerances; Coordinates::new acceptance on boundary and arbitrary f64 values, and evaluation of every accepted pair (poles, antimeridian).",
    "Trusted: the solar-noon approximation (error < 1.5 min against tolerances of 10 and 30 min) and chrono-tz offsets. Days on which the inferred zone changes its offset are skipped and counted.",
    "DESIGN.md section 3, C11",
)

CHECKS["C12"] = (
    "differential property-based testing (Hypothesis) of the built extension against the Rust core through a JSON-lines oracle",
    "Hypothesis drives the freshly built extension module over constructor argument combinations, expressions from the harness generator, naive and aware datetimes (any zone, fold), with dedicated strategies for sun events with coordinates and for real DST transitions; exception classes, validate, str, repr, normalize and every evaluation result are compared with `ohv py-oracle`, which builds the documented equivalent context with the Rust core and contains no binding code; datetimes are compared on (naive local fields, zone key, fold).",
    "Trusted: the oracle's reading of the constructor documentation; CPython 3.11 + Hypothesis 6.168 of the image. Inputs without a core equivalent (nonexistent local times, zones unknown to chrono-tz) are counted, not judged; the wall-clock default (time=None) is not compared. Binding calls cannot be work-capped, so the quick tier is 1 500 examples.",
    "DESIGN.md section 3, C12",
)
CHECKS["C18"] = (
    "property-based testing of result invariance: fresh-thread reference, permuted concurrent evaluation, enumerated first-use orders in fresh child processes",
    "Generated query sets are answered once per query by a fresh thread (no history), then in order, in reverse order, on clones, and by 2-8 barrier-released threads walking different permutations on shared values or clones while evaluating unrelated expressions; fresh child processes race threads through enumerated orders of first use of the lazily initialised tables and of sun-event evaluation at several places; every answer must equal the reference.",
    "Interleavings are sampled, not enumerated (the harness does not own the scheduler); first-use orders are enumerated (all 720 in the thorough tier). Queries over 20 000 day schedules answer TOO_FAR deterministically.",
    "DESIGN.md section 3, C18, and section 8",
)

NOT_YET = {}

# Added in the later rounds of the build phase (appended to the level text).
ADDED = {
    "C01": " Exhaustive `year_tables`: Easter, ISO weeks 1/52/53 and leap days against the model on the days around them in every year 1900..9999. `far_offsets`: ranges with a year on both ends and day offsets up to i64::MAX, decided by integer arithmetic on day numbers.",
    "C04": " `arith_edges`: day offsets computed to land within 9 days of the first / last date chrono represents, of either end of the supported range, or next to an integer / duration limit. Negative interval-size bounds; a progress check on iter_range (the very same non-empty interval twice in a row = stuck = unbounded work). The checks run with a `log` sink that formats every record (a panic while building a log message is a panic of the call). Comments composed of 1-257 multi-byte atoms. near_valid also replaces characters by Unicode relatives (digits of other scripts, fullwidth forms, look-alike punctuation); numbers zero-padded up to 300 characters.",
    "C06": " When the reparsed tree differs from the original one, equivalence is checked on every day of the years the expression mentions and their neighbours.",
    "C08": " From before 1900 the first opening is also computed with the reference model of C01 (independent of schedule_at); an eighth of the cases are constructed spills across a bound of the range, a quarter rare recurrences; holiday calendars reach into 1899. `zone_extremes`: zone contexts at the first / last representable instants and far outside the range, compared with the answers from an ordinary instant before 1900 / a window ending just after 9999.",
    "C09": " Exhaustive `all_transitions`: every offset transition 1900..2045 of each of the 596 zones x expressions with a state change inside the skipped / repeated stretch x 4 instants around it.",
    "C10": " first_after is queried from every date 1990..2085 of every calendar. contains() on 12 images of every listed date in other years and at the extreme dates.",
    "C11": " Days during which the zone offset changes are decided on the instants the local event times denote; exhaustive `transition_days`: every tz transition 1900..2045 of every zone owning a point of the 1-degree grid, on the local dates around it. Exhaustive `default_hours_on_transition_days`: default sun hours of a zone-only location on the days around every tz transition. `event_minutes`: event minute = UTC instant of the sunrise crate on the zone's wall clock (eras of local mean time). Exhaustive `zone_source`: from_coords against the zone finder's preferred answer on a quarter-degree grid.",
    "C12": " Strategy `border_args`: places a few metres apart on either side of a country / zone border (found by bisection on the library's own lookup), alternating within one process. DST strategy: the same instant next to a switch handed over in a zone whose offset equals the context's on the other side. A third of the constructor calls positional.",
    "C14": " 4 % of the leaves have 20-142 ranges (sizes bracketing 32 / 64) expanded from a drawn seed. Stacked leaves: up to 300 ranges open at once.",
    "C15": " `history_extremes`: histories over the first / last years chrono represents. collect() through six iterator shapes. `dense_large`: calendars of up to 263 000 dates (sizes bracketing 65 536).",
    "C17": " `single_owner`: provenance on generated expressions against the reference model (which rule's minutes survive on the day). First interval also under an interval-size bound.",
    "C18": " Values derived from one parsed value by clone().with_context (families) with a reference rebuilt from scratch; `hammer`: threads evaluating per-year computations in years colliding modulo powers of two. `lookup_histories`: coordinate lookups (zone, country, Context::from_coords) over places on both sides of zone / country borders and at junctions of countries must not depend on what was looked up before, on repetition or on the thread. `gap_histories`: zones skipping time on the same date evaluated one after the other on one thread vs alone on a fresh thread.",
    "C19": " Results of add_minutes / add_hours must be the value new(r / 60, r % 60) builds; Display under formatter flags; sub-second and leap-second NaiveTime inputs. Exhaustive `display_pairs`: every ordered pair of values printed one after the other. Alternate, sign and precision flags, pretty Debug of a value and of a container.",
    "C20": " Operands of up to 3 000 elements (sizes bracketing powers of two); chains (a∪b)∪c with third operands below / above / interleaved and operands built with spare capacity. `runs`: operands made of runs of consecutive values owned by one side, the other or both (run lengths bracketing powers of two, doubles of the previous run). `deep`: interleavings of up to 70 000 elements on a large stack.",
    "C05": " 3 % of the sentences have 12-67 rules. `negative`: 77 field templates, half of the out-of-range values inside generated expressions. Sentences up to 257 rules, selector lists up to 65 elements, composed comments.",
    "C16": " Bounds aligned on whole days from the date of the query; the context assembled in four orders (holidays / bound / locale). The bounded value may be derived by normalize() / clone() from a value carrying the bound.",
    "C07": " Expressions up to 257 rules (a run of a hundred canonical rules is common), selector lists up to 65 elements.",
    "C13": " 4 % of the expressions have 12-67 rules (sizes bracketing 16 / 32 / 64). Expressions up to 257 rules.",
}


def main():
    props = [json.loads(l) for l in open(os.path.join(ROOT, "properties.jsonl"))]
    hooks_commits = []
    try:
        out = subprocess.run(["git", "-C", "/repo", "log", "--format=%H %s"], capture_output=True, text=True).stdout
        hooks_commits = [l.split()[0] for l in out.splitlines() if l.split(" ", 1)[1].startswith("verif hooks:")]
    except Exception:
        pass
    checks = []
    not_applicable = []
    for p in props:
        pid = p["id"]
        if pid in CHECKS:
            tech, text, note, ref = CHECKS[pid]
            text += ADDED.get(pid, "")
            if pid in ("C01", "C02", "C05", "C06", "C07", "C13", "C16", "C17"):
                tech += "; thorough tier adds a coverage-guided libFuzzer campaign whose target decodes bytes with the same generators and runs this property's oracle in-target"
            if pid == "C04":
                tech += "; thorough tier adds the coverage-guided byte-level libFuzzer target parse_total"
            checks.append({
                "property_id": pid,
                "quick_cmd": f"./run.sh {pid} quick",
                "thorough_cmd": f"./run.sh {pid} thorough",
                "evidence_file": f"evidence/{pid}.json",
                "replay_cmd_template": "./run.sh replay {path}",
                "engine": "ohv",
                "level_claimed": {"category": "exploration", "text": text, "design_ref": ref},
                "level_note": note,
                "technique": tech,
            })
        else:
            not_applicable.append({"property_id": pid, "reason": NOT_YET.get(pid, "check under construction in this build phase: not claimed until its generator, oracle and sensitivity run exist (see DESIGN.md section 3)")})
    manifest = {
        "version": 1,
        "setup_cmd": "./setup.sh",
        "hooks": {
            "guard": "cargo feature `verif-hooks` of crate opening-hours",
            "enable": "the harness depends on /repo by path with features = [\"verif-hooks\", ...] (harness/Cargo.toml); no RUSTFLAGS needed",
            "baseline_off_cmd": "cd /repo && cargo test --workspace --no-fail-fast --offline",
            "source_commits": hooks_commits,
            "add_only": True,
        },
        "engines": [
            {"name": "ohv", "path": "harness", "serves_properties": sorted(CHECKS), "kind_free_text": "Rust harness: choice-sequence generators driven by proptest (seeded, 64 shards, shrinking) and exhaustive enumerators; reference models and differential/metamorphic oracles; replay files"},
            {"name": "c12.py", "path": "py/c12.py", "serves_properties": ["C12"], "kind_free_text": "Hypothesis driver for the Python extension, talking to `ohv py-oracle`"},
            {"name": "libFuzzer", "path": "fuzz", "serves_properties": ["C01", "C02", "C04", "C05", "C06", "C07", "C13", "C16", "C17"], "kind_free_text": "cargo-fuzz targets: parse_total (byte level, C04) and consistency (choice-sequence decoding, oracle pinned per property with VERIF_FUZZ_ORACLE); thorough tiers only; oracles shared with the harness"},
        ],
        "checks": checks,
        "not_applicable": not_applicable,
        "notes": "Technique family: property-based testing and fuzzing. ./run.sh rebuilds the harness and /repo's crates from the working tree on every call. Exit 0 = held, 1 = VIOLATION line printed, 2 = INCONCLUSIVE (build failure / watchdog).",
    }
    with open(os.path.join(ROOT, "MANIFEST.json"), "w") as f:
        json.dump(manifest, f, indent=1)
        f.write("\n")

if __name__ == "__main__":
    main()
