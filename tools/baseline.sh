#!/bin/bash
# Runs the repository's own test suite (hooks OFF: no workspace member enables `verif-hooks`) and
# compares the passing tests with the 113 stable passes recorded in /root/.vp/BASELINE.json.
# Exit 0 iff every baseline test still passes.
cd "${1:-/repo}" || exit 2
out=$(mktemp)
cargo test --workspace --no-fail-fast --offline >"$out" 2>&1
python3 - "$out" <<'PY'
import json, re, sys
out = open(sys.argv[1]).read()
passed = set(re.findall(r"^test (\S+) \.\.\. ok$", out, re.M))
# doc tests: "test opening-hours/src/... - name (line N) ... ok" are not part of the baseline
base = json.load(open('/root/.vp/BASELINE.json'))['stable_pass']
missing = []
for name in base:
    short = name.split('::', 1)[1]
    if short not in passed:
        missing.append(name)
doc_fail = re.findall(r"^test (.+) \.\.\. FAILED$", out, re.M)
doc_fail = [d for d in doc_fail if not d.startswith('tests::_')]
print(f"baseline: {len(base) - len(missing)}/{len(base)} stable tests pass; other failures (excluding the 256 absent-corpus tests): {doc_fail}")
if missing:
    print("MISSING:", missing)
sys.exit(1 if missing or doc_fail else 0)
PY
rc=$?
rm -f "$out"
exit $rc
