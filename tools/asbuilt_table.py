#!/usr/bin/env python3
"""Markdown table of what the last run of every check covered (from evidence/*.json)."""
import json, glob, os
root = os.path.dirname(os.path.dirname(os.path.abspath(__file__)))
print("| property | tier | sub-check | cases | distinct non-trivial | wall s |")
print("|---|---|---|---|---|---|")
for path in sorted(glob.glob(os.path.join(root, "evidence", "C*.json"))):
    e = json.load(open(path))
    checks = e["coverage"].get("checks")
    if not checks:
        print(f"| {e['property_id']} | {e['tier']} | binding (Hypothesis) | {e['coverage']['evaluations']} | {e['coverage']['distinct_nontrivial']} | {e['wall_s']} |")
        continue
    for name, c in checks.items():
        print(f"| {e['property_id']} | {e['tier']} | {name}{' (exhaustive)' if c.get('exhaustive') else ''} | {c['cases']} | {c['distinct_nontrivial']} | {c['wall_s']} |")
