#!/usr/bin/env python3
"""fuzz_merge.py <property id> <campaign json line>... : merges libFuzzer campaign statistics into evidence/<id>.json,
converts crash artifacts into replay files, prints VIOLATION lines for those that the plain replay reproduces.
Exit 1 if there is any, 2 for timeout/oom artifacts only."""
import json, os, sys, glob, hashlib
root = os.path.dirname(os.path.dirname(os.path.abspath(__file__)))
PROP = sys.argv[1]
campaigns = [json.loads(a) for a in sys.argv[2:] if a.strip().startswith("{")]
ev_path = os.path.join(root, "evidence", f"{PROP}.json")
ev = json.load(open(ev_path))
cov = ev["coverage"]
cov["fuzzing"] = campaigns
cov["evaluations"] += sum(c.get("executions", 0) for c in campaigns)
cov["rule"] += " || [libFuzzer] coverage-guided campaign: " + ("`parse_total` (bytes up to 0xFF = expression text, rest = evaluation choices; dictionary of grammar tokens; seeds = 120 sample lines of the repository; the totality predicate runs inside the target)" if PROP == "C04" else f"`consistency` with the oracle pinned to this property (bytes = choice sequence decoded by the same generators the proptest driver uses; the {PROP} oracle runs inside the target)") + "; fresh working corpus, -seed derived from VERIF_SEED, fixed -runs per worker and a wall-clock budget that only ends the exploration"
TABLE = [("C01", "semantics"), ("C02", "windows"), ("C06", "roundtrip"), ("C07", "meaning"), ("C13", "idempotent"), ("C05", "positive"), ("C17", "wellformed"), ("C16", "bound_relation")]
violations = []
inconclusive = []
not_reproduced = []
for c in campaigns:
    target = c.get("target")
    for art in sorted(glob.glob(os.path.join(root, "fuzz", "artifacts", str(target), "*"))):
        data = open(art, "rb").read()
        h = hashlib.sha1(data).hexdigest()[:12]
        if target == "parse_total":
            split = data.find(b"\xff")
            text = (data if split < 0 else data[:split]).decode("utf-8", "replace")
            body = {"property": "C04", "check": "hostile", "text": text, "rendered": text, "message": f"libFuzzer artifact {os.path.basename(art)}: {c.get('first_message', '')}"}
            prop = "C04"
        else:
            pinned = [t for t in TABLE if t[0] == PROP]
            prop, check = pinned[0] if pinned else (TABLE[data[0] % len(TABLE)] if data else ("C04", "hostile"))
            raw = data[1:]
            choices = [raw[i] | ((raw[i + 1] if i + 1 < len(raw) else 0) << 8) for i in range(0, len(raw), 2)]
            body = {"property": prop, "check": check, "choices": choices, "text": None, "rendered": f"libFuzzer artifact {os.path.basename(art)}", "message": c.get("first_message", "")}
        d = os.path.join(root, "replays", prop, "new")
        os.makedirs(d, exist_ok=True)
        path = os.path.join(d, f"fuzz-{target}-{h}.json")
        json.dump(body, open(path, "w"), indent=1)
        kind = os.path.basename(art).split("-")[0]
        if kind != "crash":
            # timeout-, oom-, slow-unit-: a resource limit of the fuzzer, never a verdict
            inconclusive.append(f"libFuzzer {kind} artifact {os.path.relpath(art, root)}")
            os.remove(path)
            continue
        # the saved input is the reproducible unit: it only counts if the plain replay fails too
        import subprocess
        r = subprocess.run([os.path.join(root, "harness", "target", "release", "ohv"), "replay", path], capture_output=True, text=True)
        if r.returncode == 1:
            detail = (r.stdout.splitlines() + [""])[1] if len(r.stdout.splitlines()) > 1 else body["message"]
            violations.append((prop, os.path.relpath(path, root), detail))
        else:
            not_reproduced.append(os.path.relpath(art, root))
            os.remove(path)
cov["fuzzing_artifacts_not_reproduced_by_plain_replay"] = not_reproduced
cov["fuzzing_inconclusive"] = inconclusive
ev["violations"] = ev.get("violations", 0) + len(violations)
json.dump(ev, open(ev_path, "w"), indent=1)
for prop, path, msg in violations:
    print(f"VIOLATION property={PROP} replay={path}")
    print(f"  detail: found by coverage-guided fuzzing (oracle of {prop}) :: {msg[:400]}")
for line in inconclusive:
    print(f"INCONCLUSIVE: {line}")
sys.exit(1 if violations else (2 if inconclusive else 0))
