#!/bin/bash
# all_quick.sh <seed> [tier] : runs every registered check once (fresh process each), prints one line per property.
cd "$(dirname "$0")/.."
seed=${1:-0}; tier=${2:-quick}
total=0; bad=0
for p in C01 C02 C03 C04 C05 C06 C07 C08 C09 C10 C11 C12 C13 C14 C15 C16 C17 C18 C19 C20; do
    s=$(date +%s)
    out=$(VERIF_SEED=$seed ./run.sh $p $tier 2>/dev/null); rc=$?
    e=$(( $(date +%s) - s )); total=$((total + e))
    [ $rc -ne 0 ] && bad=$((bad + 1))
    echo "seed=$seed $p $tier rc=$rc ${e}s $(echo "$out" | grep -E '^(VIOLATION|KNOWN-FINDING|INCONCLUSIVE)' | head -2 | tr '\n' ' ' | cut -c1-200)"
done
echo "seed=$seed total=${total}s non-zero=$bad"
