#!/bin/bash
# seed_confirm_py.sh <worktree> <variant> <seed id> <property> : like seed_confirm.sh for demos written in Python
# against the built extension module.
set -u
WT=$1; VAR=$2; ID=$3; PROP=$4
S=$WT/SEED/$VAR
export CARGO_TARGET_DIR=$WT/target CARGO_NET_OFFLINE=true
cd "$WT" || exit 2
git checkout -q -- . 2>/dev/null
build_ext() {
  cargo build --release --lib --features pyo3/extension-module --manifest-path opening-hours-py/Cargo.toml --target-dir "$WT/target/pyext" --offline >/dev/null 2>&1 \
  && mkdir -p target/pyext/mod && cp target/pyext/release/libopening_hours.so target/pyext/mod/opening_hours.so
}
build_ext; PYTHONPATH=$WT/target/pyext/mod python3-vt "$S/demo.py" >"$S/confirm_without.log" 2>&1; rc_without=$?
git apply "$S/patch.diff"
build_ext; PYTHONPATH=$WT/target/pyext/mod python3-vt "$S/demo.py" >"$S/confirm_with.log" 2>&1; rc_with=$?
/verif/tools/baseline.sh "$WT" >"$S/confirm_suite.log" 2>&1; rc_suite=$?
git checkout -q -- .
echo "demo without patch rc=$rc_without (want 0); demo with patch rc=$rc_with (want !=0); suite with patch rc=$rc_suite (want 0)"
if [ $rc_without -eq 0 ] && [ $rc_with -ne 0 ] && [ $rc_suite -eq 0 ]; then
    D=/verif/seeded/$ID; mkdir -p "$D"
    cp "$S/patch.diff" "$D/patch.diff"; cp "$S/demo.py" "$D/"; cp "$S/README.md" "$D/README.agent.md" 2>/dev/null
    python3 - "$D" "$ID" "$PROP" <<'PY'
import json, sys, os
d, sid, prop = sys.argv[1:4]
json.dump({"id": sid, "property": prop, "source": "fresh sub-agent given only the property text and its own scratch worktree",
 "needs_to_manifest": "see README.agent.md",
 "confirmed": {"suite_passes_with_patch": "tools/baseline.sh <worktree>", "demo_fails_with_patch": "python3-vt demo.py against the rebuilt extension -> exit 1", "demo_passes_without_patch": "exit 0"},
 "detected_by": {}}, open(os.path.join(d, "meta.json"), "w"), indent=1)
PY
    echo "CONFIRMED -> $D"
else
    echo "NOT CONFIRMED"; tail -n 5 "$S/confirm_without.log"; tail -n 5 "$S/confirm_with.log"
fi
