#!/bin/bash
# soak.sh <first seed> <last seed> : silence soak on the unchanged tree — thorough tier of the cheap checks and quick tier
# of the others, from fresh processes, for a range of seeds. One line per non-zero exit, then a summary.
cd "$(dirname "$0")/.."
bad=0; n=0
for seed in $(seq "$1" "$2"); do
    for p in C05 C06 C07 C10 C11 C13 C14 C15 C16 C17 C19 C20; do
        out=$(VERIF_SEED=$seed VERIF_FUZZ_SECONDS=1 VERIF_FUZZ_RUNS=1 harness/target/release/ohv run $p thorough 2>/dev/null); rc=$?; n=$((n+1))
        [ $rc -ne 0 ] && { bad=$((bad+1)); echo "seed=$seed $p thorough rc=$rc $(echo "$out" | grep -A1 -m1 '^VIOLATION' | tr '\n' ' ' | cut -c1-300)"; }
    done
    for p in C01 C02 C03 C04 C08 C09 C18; do
        out=$(VERIF_SEED=$seed harness/target/release/ohv run $p quick 2>/dev/null); rc=$?; n=$((n+1))
        [ $rc -ne 0 ] && { bad=$((bad+1)); echo "seed=$seed $p quick rc=$rc $(echo "$out" | grep -A1 -m1 '^VIOLATION' | tr '\n' ' ' | cut -c1-300)"; }
    done
done
echo "soak seeds $1..$2: $n runs, $bad non-zero"
