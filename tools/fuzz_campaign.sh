#!/bin/bash
# fuzz_campaign.sh <target> <runs per worker> <max_len> <workers>
# Coverage-guided libFuzzer campaign for the thorough tier of C04 (targets in /verif/fuzz). Fresh working corpus
# copied from fuzz/seeds/<target>; -seed=VERIF_SEED (0 is remapped to 1: libFuzzer treats 0 as "random").
# The campaign ends after <runs> executions per worker or after VERIF_FUZZ_SECONDS (default 600 s) of wall clock,
# whichever comes first; hitting the time budget only ends the exploration, it is never a verdict.
# Prints one JSON line with the statistics; artifacts (crashing inputs) are left in fuzz/artifacts/<target>/.
set -u
cd "$(dirname "$0")/../harness" || exit 2
target=$1; runs=$2; maxlen=$3; workers=$4
export CARGO_NET_OFFLINE=true
if ! cargo +nightly fuzz build --fuzz-dir ../fuzz "$target" >/tmp/fuzz_build_$$.log 2>&1; then
    cat /tmp/fuzz_build_$$.log; rm -f /tmp/fuzz_build_$$.log
    echo '{"error": "fuzz build failed"}'; exit 2
fi
rm -f /tmp/fuzz_build_$$.log; cd ../fuzz
bin=target/x86_64-unknown-linux-gnu/release/$target
work=corpus-work/$target; art=artifacts/$target
rm -rf "$work" "$art"; mkdir -p "$work" "$art" logs
cp seeds/"$target"/* "$work"/ 2>/dev/null
seed=${VERIF_SEED:-0}; [ "$seed" = "0" ] && seed=1
start=$(date +%s)
pids=()
for w in $(seq 1 "$workers"); do
    "$bin" "$work" -runs="$runs" -seed=$((seed * 100 + w)) -max_len="$maxlen" -len_control=0 -dict=dict/oh.dict \
        -artifact_prefix="$art/" -print_final_stats=1 -timeout=120 -rss_limit_mb=6144 -reload=1 -max_total_time="${VERIF_FUZZ_SECONDS:-600}" -handle_term=0 -handle_int=0 >"logs/$target-$w.log" 2>&1 &
    pids+=($!)
done
rc_all=0
for p in "${pids[@]}"; do wait "$p" || rc_all=1; done
secs=$(( $(date +%s) - start ))
execs=$(grep -h "stat::number_of_executed_units" logs/$target-*.log | awk '{s+=$2} END {print s+0}')
cov=$(grep -h "cov: " logs/$target-*.log | sed -n 's/.*cov: \([0-9]*\).*/\1/p' | sort -n | tail -1)
units=$(ls "$work" | wc -l)
crashes=$(ls "$art" 2>/dev/null | wc -l)
msg=$(grep -h -m1 "OHV-FUZZ-VIOLATION" logs/$target-*.log | head -1 | cut -c1-600 | python3 -c 'import json,sys; print(json.dumps(sys.stdin.read().strip()))')
echo "{\"target\": \"$target\", \"executions\": ${execs:-0}, \"coverage_edges\": ${cov:-0}, \"corpus_units\": $units, \"seconds\": $secs, \"workers\": $workers, \"artifacts\": $crashes, \"first_message\": $msg}"
[ "$crashes" -gt 0 ] && exit 1
exit 0
