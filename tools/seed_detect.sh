#!/bin/bash
# seed_detect.sh <seed id> <tier> <prop> [<prop>...] : applies /verif/seeded/<id>/patch.diff to /repo, runs the given
# checks, reverts, and records which ones report a violation in meta.json.
set -u
ID=$1; TIER=$2; shift 2
D=/verif/seeded/$ID
git -C /repo diff --quiet || { echo "/repo is dirty"; exit 2; }
git -C /repo apply "$D/patch.diff" || exit 2
trap 'git -C /repo checkout -q -- .' EXIT
for P in "$@"; do
    start=$(date +%s)
    out=$(cd /verif && VERIF_SEED=${VERIF_SEED:-0} ./run.sh "$P" "$TIER" 2>/dev/null); rc=$?
    secs=$(( $(date +%s) - start ))
    first=$(echo "$out" | grep -m1 -A1 "^VIOLATION" | tail -1 | cut -c1-300)
    echo "$ID $P $TIER rc=$rc ${secs}s $first"
    python3 - "$D/meta.json" "$P" "$TIER" "$rc" "$secs" "$first" <<'PY'
import json, sys
path, prop, tier, rc, secs, first = sys.argv[1:7]
m = json.load(open(path))
m.setdefault("detected_by", {})[f"{prop}:{tier}"] = {"exit": int(rc), "seconds": int(secs), "first_violation": first}
json.dump(m, open(path, "w"), indent=1)
PY
done
rm -rf /verif/replays/*/new
