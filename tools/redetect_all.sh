#!/bin/bash
# redetect_all.sh [tier] : regression of the sensitivity record — re-runs, for every seeded change, the checks that
# detected it before (meta.json: detected_by with exit 1 in that tier) and reports changes that no check detects any more.
cd "$(dirname "$0")/.."
tier=${1:-quick}
lost=0; n=0
for d in seeded/*/; do
    id=$(basename "$d")
    props=$(python3 - "$d/meta.json" "$tier" <<'PY'
import json, sys
m = json.load(open(sys.argv[1])); tier = sys.argv[2]
print(" ".join(sorted(k.split(":")[0] for k, v in m.get("detected_by", {}).items() if k.endswith(":" + tier) and v.get("exit") == 1)))
PY
)
    [ -z "$props" ] && { echo "$id: no detecting check on record (negative control or undetected)"; continue; }
    n=$((n+1))
    out=$(tools/seed_detect.sh "$id" "$tier" $props 2>&1)
    if echo "$out" | grep -q "rc=1"; then
        echo "$id: still detected ($(echo "$out" | grep -c 'rc=1')/$(echo "$props" | wc -w) checks: $props)"
        echo "$out" | grep -v "rc=1" | sed 's/^/    NOT ANY MORE: /' | cut -c1-200
    else
        lost=$((lost+1)); echo "$id: LOST — $out" | cut -c1-400
    fi
done
echo "redetect: $n seeded changes re-run, $lost no longer detected"
