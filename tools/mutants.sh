#!/bin/bash
# mutants.sh : applies each hand-written mutant of notes/mutants (first line "# expected: Cxx") that still applies to
# /repo, runs the expected check(s) in the quick tier, reverts. One line per mutant.
set -u
cd /verif
git -C /repo diff --quiet || { echo "/repo is dirty"; exit 2; }
for m in notes/mutants/*.patch; do
    name=$(basename "$m" .patch)
    props=$(grep "^$name" notes/mutants/RESULTS.txt | awk '{print $2}' | tr '/' ' ')
    if ! git -C /repo apply --check "$m" 2>/dev/null; then
        echo "$name SKIP (no longer applies)"; continue
    fi
    git -C /repo apply "$m"
    for p in $props; do
        out=$(VERIF_SEED=0 ./run.sh "$p" quick 2>/dev/null); rc=$?
        echo "$name $p rc=$rc $(echo "$out" | grep -m1 -A1 '^VIOLATION' | tail -1 | cut -c1-140)"
    done
    git -C /repo checkout -q -- .
    rm -rf /verif/replays/*/new
done
