#!/bin/bash
# bg_thorough.sh <seed> [props...] : for `vp run --with-repo`: builds the snapshot's harness against the /repo snapshot
# ($VP_RUN_REPO) and runs the harness part of the thorough tier of each property (no C12, no libFuzzer campaigns).
# Results are exploration only (never evidence): anything it reports is re-run in /verif against /repo itself.
set -u
cd "$(dirname "$0")/.."
seed=$1; shift
props=${*:-C01 C02 C03 C05 C06 C07 C08 C09 C11 C13 C14 C15 C16 C17 C18 C04}
repo=${VP_RUN_REPO:-/repo}
sed -i "s#path = \"/repo#path = \"$repo#" harness/Cargo.toml
export VERIF_ROOT="$(pwd)" VERIF_REPO="$repo" CARGO_NET_OFFLINE=true VERIF_SEED=$seed
cargo build --release --manifest-path harness/Cargo.toml --bin ohv 2>&1 | tail -2
for p in $props; do
    s=$(date +%s)
    out=$(harness/target/release/ohv run $p thorough 2>/dev/null); rc=$?
    echo "seed=$seed $p thorough rc=$rc $(( $(date +%s) - s ))s"
    echo "$out" | grep -E -A3 '^(VIOLATION|KNOWN-FINDING|INCONCLUSIVE)' | cut -c1-600 | head -20
done
