#!/bin/bash
# seed_confirm.sh <worktree> <variant dir name under SEED> <seed id> <property>
# Confirms a seeded change delivered by a sub-agent in its scratch worktree:
#   (1) with the patch the existing suite still passes, (2) the demo fails with the patch,
#   (3) the demo passes without it.  On success copies it to /verif/seeded/<seed id>/.
set -u
WT=$1; VAR=$2; ID=$3; PROP=$4
S=$WT/SEED/$VAR
export CARGO_TARGET_DIR=$WT/target CARGO_NET_OFFLINE=true
cd "$WT" || exit 2
git checkout -q -- . 2>/dev/null
git apply --check "$S/patch.diff" || { echo "PATCH DOES NOT APPLY"; exit 1; }
demo=$(ls "$S"/demo* | head -1)
mkdir -p tests && cp "$demo" tests/seed_demo.rs
# (3) without patch
cargo test --offline --features auto-timezone,auto-country --test seed_demo >"$S/confirm_without.log" 2>&1; rc_without=$?
git apply "$S/patch.diff"
# (2) with patch
cargo test --offline --features auto-timezone,auto-country --test seed_demo >"$S/confirm_with.log" 2>&1; rc_with=$?
rm -rf tests
# (1) suite with patch
/verif/tools/baseline.sh "$WT" >"$S/confirm_suite.log" 2>&1; rc_suite=$?
git checkout -q -- .
echo "demo without patch rc=$rc_without (want 0); demo with patch rc=$rc_with (want !=0); suite with patch rc=$rc_suite (want 0)"
tail -1 "$S/confirm_suite.log"
if [ $rc_without -eq 0 ] && [ $rc_with -ne 0 ] && [ $rc_suite -eq 0 ]; then
    D=/verif/seeded/$ID
    mkdir -p "$D"
    cp "$S/patch.diff" "$D/patch.diff"
    cp "$demo" "$D/"
    cp "$S/README.md" "$D/README.agent.md" 2>/dev/null
    python3 - "$D" "$ID" "$PROP" "$S" <<'PY'
import json, sys, os
d, sid, prop, s = sys.argv[1:5]
readme = open(os.path.join(s, "README.md")).read() if os.path.exists(os.path.join(s, "README.md")) else ""
meta = {
    "id": sid,
    "property": prop,
    "source": "fresh sub-agent given only the property text and its own scratch worktree",
    "needs_to_manifest": "see README.agent.md",
    "confirmed": {
        "suite_passes_with_patch": "tools/baseline.sh <worktree> -> 113/113 stable tests, no other failure",
        "demo_fails_with_patch": "cargo test --offline --features auto-timezone,auto-country --test seed_demo -> non-zero",
        "demo_passes_without_patch": "cargo test --offline --features auto-timezone,auto-country --test seed_demo -> 0",
    },
    "detected_by": {},
}
json.dump(meta, open(os.path.join(d, "meta.json"), "w"), indent=1)
PY
    echo "CONFIRMED -> $D"
else
    echo "NOT CONFIRMED"; tail -n 5 "$S/confirm_without.log"; tail -n 5 "$S/confirm_with.log"
    exit 1
fi
