#!/bin/bash
# scratch_detect.sh <seed id> <tier> <prop> [<prop>...] : preliminary detection run that leaves /repo and /verif alone
# (usable while other jobs run there): the seeded change is applied to a scratch worktree of /repo (/tmp/dw), a copy of
# the harness is built against it (/tmp/dv/harness) and run with VERIF_ROOT=/tmp/dv (copies of the pinned replays and of
# known_findings.txt; evidence and new replays land there). Harness checks only (not C12, no fuzz campaigns).
# Nothing is recorded in meta.json: the recorded detection runs are those of seed_detect.sh against /repo itself.
# `scratch_detect.sh clean` removes the scratch directories.
set -u
if [ "$1" = clean ]; then
    git -C /repo worktree remove --force /tmp/dw 2>/dev/null; rm -rf /tmp/dv /tmp/dw; exit 0
fi
ID=$1; TIER=$2; shift 2
[ -d /tmp/dw ] || git -C /repo worktree add -q --detach /tmp/dw HEAD || exit 2
git -C /tmp/dw checkout -q --detach "$(git -C /repo rev-parse HEAD)" && git -C /tmp/dw checkout -q -- .
mkdir -p /tmp/dv/evidence
rsync -a --delete --exclude target /verif/harness/ /tmp/dv/harness/
rsync -a --delete --exclude new /verif/replays/ /tmp/dv/replays/
cp /verif/known_findings.txt /tmp/dv/
sed -i 's#path = "/repo#path = "/tmp/dw#' /tmp/dv/harness/Cargo.toml
if [ "$ID" != none ]; then git -C /tmp/dw apply "/verif/seeded/$ID/patch.diff" || exit 2; fi
(cd /tmp/dv/harness && CARGO_NET_OFFLINE=true cargo build --release 2>&1 | grep -E "^error" -A8)
for P in "$@"; do
    start=$(date +%s)
    out=$(cd /tmp/dv && VERIF_ROOT=/tmp/dv VERIF_REPO=/tmp/dw VERIF_SEED=${VERIF_SEED:-0} harness/target/release/ohv run "$P" "$TIER" 2>/dev/null); rc=$?
    echo "$ID $P $TIER rc=$rc $(( $(date +%s) - start ))s $(echo "$out" | grep -m1 -A1 '^VIOLATION' | tail -1 | cut -c1-300)"
done
git -C /tmp/dw checkout -q -- .
