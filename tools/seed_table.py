#!/usr/bin/env python3
"""Prints the markdown table of seeded changes (seeded/*/meta.json) for DESIGN.md section 7."""
import json, glob, os, re
root = os.path.dirname(os.path.dirname(os.path.abspath(__file__)))
rows = []
for path in sorted(glob.glob(os.path.join(root, "seeded", "*", "meta.json"))):
    m = json.load(open(path))
    d = os.path.dirname(path)
    summary = m.get("summary", "")
    files = sorted(set(re.findall(r"^\+\+\+ b/(\S+)", open(os.path.join(d, "patch.diff")).read(), re.M)))
    det = m.get("detected_by", {})
    hits = [k for k, v in det.items() if v["exit"] == 1]
    misses = [k for k, v in det.items() if v["exit"] == 0]
    rows.append((m["id"], m["property"], summary, ", ".join(os.path.basename(f) for f in files), ", ".join(hits) or "-", ", ".join(misses) or "-"))
print("| seed | target | change (file) | what it needs | detected by (tier) | ran silent |")
print("|---|---|---|---|---|---|")
for r in rows:
    print(f"| {r[0]} | {r[1]} | {r[3]} | {r[2]} | {r[4]} | {r[5]} |")
