#!/bin/bash
# redetect_scratch.sh [tier] : like redetect_all.sh, but on scratch copies (a worktree of /repo under /tmp/rd/w and a
# snapshot of the harness, replays and known findings under /tmp/rd/v taken when it starts), so that /repo and /verif
# can be edited while it runs. Harness checks only (C12 detections are re-run with seed_detect.sh). Prints one line per
# seeded change; nothing is recorded in meta.json. Removes its scratch directories when done.
set -u
tier=${1:-quick}
R=/tmp/rd
rm -rf $R/v; git -C /repo worktree remove --force $R/w 2>/dev/null; rm -rf $R/w; mkdir -p $R/v/evidence
git -C /repo worktree add -q --detach $R/w HEAD || exit 2
rsync -a --exclude target /verif/harness/ $R/v/harness/
rsync -a --exclude new /verif/replays/ $R/v/replays/
cp /verif/known_findings.txt $R/v/
sed -i "s#path = \"/repo#path = \"$R/w#" $R/v/harness/Cargo.toml
lost=0; n=0
for d in /verif/seeded/*/; do
    id=$(basename "$d")
    props=$(python3 - "$d/meta.json" "$tier" <<'PY'
import json, sys
m = json.load(open(sys.argv[1])); tier = sys.argv[2]
print(" ".join(sorted(k.split(":")[0] for k, v in m.get("detected_by", {}).items() if k.endswith(":" + tier) and v.get("exit") == 1 and not k.startswith("C12"))))
PY
)
    [ -z "$props" ] && { echo "$id: no harness check on record"; continue; }
    n=$((n+1))
    git -C $R/w checkout -q -- . && git -C $R/w apply "$d/patch.diff" || { echo "$id: PATCH DOES NOT APPLY"; continue; }
    (cd $R/v/harness && CARGO_NET_OFFLINE=true cargo build --release --bin ohv 2>&1 | grep -E "^error" -A6 | head -8)
    hits=0; res=""
    for P in $props; do
        out=$(cd $R/v && VERIF_ROOT=$R/v VERIF_REPO=$R/w VERIF_SEED=${VERIF_SEED:-0} timeout 1500 harness/target/release/ohv run "$P" "$tier" 2>/dev/null); rc=$?
        [ $rc -eq 1 ] && hits=$((hits+1))
        res="$res $P=$rc"
    done
    if [ $hits -gt 0 ]; then echo "$id: still detected ($res )"; else lost=$((lost+1)); echo "$id: LOST ($res )"; fi
    rm -rf $R/v/replays/*/new
done
git -C $R/w checkout -q -- .
echo "redetect: $n seeded changes re-run, $lost no longer detected"
git -C /repo worktree remove --force $R/w; rm -rf $R
