#!/bin/bash
# MANIFEST.setup_cmd: cold build of the verification machinery, offline, from files on disk only.
set -eu
cd "$(dirname "$0")"
export CARGO_NET_OFFLINE=true
cargo build --release --manifest-path harness/Cargo.toml --bin ohv
echo "setup done"
