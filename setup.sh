#!/bin/bash
# MANIFEST.setup_cmd: cold build of the verification machinery, offline, from files on disk only.
set -eu
cd "$(dirname "$0")"
export CARGO_NET_OFFLINE=true
cargo build --release --manifest-path harness/Cargo.toml --bin ohv
cargo build --release --lib --features pyo3/extension-module \
    --manifest-path /repo/opening-hours-py/Cargo.toml --target-dir harness/target/pyext
mkdir -p harness/target/pyext/mod
cp -f harness/target/pyext/release/libopening_hours.so harness/target/pyext/mod/opening_hours.so
echo "setup done"
