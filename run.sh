#!/bin/bash
# Entry point of every registered check:  ./run.sh <Cxx> <quick|thorough>   |   ./run.sh replay <file>
# Rebuilds the harness (and therefore /repo's crates, which are path dependencies with the
# `verif-hooks` feature on) from the current working tree before running.
set -u
cd "$(dirname "$0")"
export VERIF_ROOT="$(pwd)"
export CARGO_NET_OFFLINE=true
export VERIF_SEED="${VERIF_SEED:-0}"

build() { # build <log label> <cargo args...>
    local log
    log=$(mktemp)
    if ! cargo "${@:2}" >"$log" 2>&1; then
        cat "$log"
        rm -f "$log"
        echo "INCONCLUSIVE: $1 build failed"
        exit 2
    fi
    rm -f "$log"
}

build_harness() {
    build harness build --release --manifest-path harness/Cargo.toml --bin ohv
}

build_pyext() {
    # the Python extension is built from /repo's working tree (workspace member opening-hours-py)
    build "python extension" build --release --lib --features pyo3/extension-module \
        --manifest-path /repo/opening-hours-py/Cargo.toml --target-dir harness/target/pyext
    mkdir -p harness/target/pyext/mod
    cp -f harness/target/pyext/release/libopening_hours.so harness/target/pyext/mod/opening_hours.so
}

case "${1:-}" in
    replay)
        build_harness
        if grep -q '"property": *"C12"' "$2" 2>/dev/null; then
            build_pyext
            exec python3-vt py/c12.py replay "$2"
        fi
        exec harness/target/release/ohv replay "$2"
        ;;
    C12)
        build_harness
        build_pyext
        exec python3-vt py/c12.py run "${2:-quick}"
        ;;
    C04)
        build_harness
        if [ "${2:-quick}" != "thorough" ]; then
            exec harness/target/release/ohv run C04 quick "${@:3}"
        fi
        # thorough: generated search, then coverage-guided libFuzzer campaigns of the same predicate
        harness/target/release/ohv run C04 thorough "${@:3}"; rc=$?
        [ $rc -eq 2 ] && exit 2
        c1=$(tools/fuzz_campaign.sh parse_total "${VERIF_FUZZ_RUNS:-200000}" 256 8); f1=$?
        if [ $f1 -eq 2 ]; then echo "$c1"; echo "INCONCLUSIVE: fuzz build failed"; exit 2; fi
        tools/fuzz_merge.py C04 "$c1"; f3=$?
        echo "[C04:libfuzzer] $c1" >&2
        if [ $rc -eq 1 ] || [ $f3 -eq 1 ]; then exit 1; fi
        if [ $f3 -eq 2 ]; then exit 2; fi
        exit 0
        ;;
    C01|C02|C05|C06|C07|C13|C16|C17)
        build_harness
        if [ "${2:-quick}" != "thorough" ]; then
            exec harness/target/release/ohv run "$1" quick "${@:3}"
        fi
        # thorough: generated search, then a coverage-guided libFuzzer campaign whose target decodes the bytes with
        # the same generators and runs this property's oracle
        harness/target/release/ohv run "$1" thorough "${@:3}"; rc=$?
        [ $rc -eq 2 ] && exit 2
        c1=$(VERIF_FUZZ_ORACLE=$1 VERIF_FUZZ_SECONDS="${VERIF_FUZZ_SECONDS:-300}" tools/fuzz_campaign.sh consistency "${VERIF_FUZZ_RUNS:-100000}" 640 8); f1=$?
        if [ $f1 -eq 2 ]; then echo "$c1"; echo "INCONCLUSIVE: fuzz build failed"; exit 2; fi
        tools/fuzz_merge.py "$1" "$c1"; f3=$?
        echo "[$1:libfuzzer] $c1" >&2
        if [ $rc -eq 1 ] || [ $f3 -eq 1 ]; then exit 1; fi
        if [ $f3 -eq 2 ]; then exit 2; fi
        exit 0
        ;;
    *)
        build_harness
        exec harness/target/release/ohv run "$1" "${2:-quick}" "${@:3}"
        ;;
esac
