#!/bin/bash
# Entry point of every registered check:  ./run.sh <Cxx> <quick|thorough>   |   ./run.sh replay <file>
# Rebuilds the harness (and therefore /repo's crates, which are path dependencies with the
# `verif-hooks` feature on) from the current working tree before running.
set -u
cd "$(dirname "$0")"
export VERIF_ROOT="$(pwd)"
export CARGO_NET_OFFLINE=true
export VERIF_SEED="${VERIF_SEED:-0}"
build_log=$(mktemp)
if ! cargo build --release --manifest-path harness/Cargo.toml --bin ohv >"$build_log" 2>&1; then
    cat "$build_log"
    rm -f "$build_log"
    echo "INCONCLUSIVE: harness build failed"
    exit 2
fi
rm -f "$build_log"
case "${1:-}" in
    replay) exec harness/target/release/ohv replay "$2" ;;
    *)      exec harness/target/release/ohv run "$1" "${2:-quick}" "${@:3}" ;;
esac
