//! Reference semantics of opening-hours expressions (DESIGN.md section 2): a deliberately naive
//! evaluator over the minutes of one day. It reads the library's public syntax-tree types as
//! plain data and shares no evaluation code with `/repo`: own leap years, month lengths, ISO week
//! numbers and Easter (Oudin 1940).

use std::collections::BTreeSet;

use chrono::{Datelike, Duration, NaiveDate, Weekday};
use opening_hours_syntax::rules as rl;
use opening_hours_syntax::rules::day as ds;
use opening_hours_syntax::rules::time as ts;

#[derive(Clone, Copy, PartialEq, Eq, Debug, Hash)]
pub enum K {
    C,
    O,
    U,
}

impl K {
    pub fn of(kind: rl::RuleKind) -> K {
        match kind {
            rl::RuleKind::Open => K::O,
            rl::RuleKind::Closed => K::C,
            rl::RuleKind::Unknown => K::U,
        }
    }
}

/// Holiday calendars of the evaluation context, as plain sets.
#[derive(Clone, Debug, Default)]
pub struct MCtx {
    pub ph: BTreeSet<NaiveDate>,
    pub sh: BTreeSet<NaiveDate>,
}

pub fn leap(y: i32) -> bool {
    (y % 4 == 0 && y % 100 != 0) || y % 400 == 0
}

pub fn days_in_month(y: i32, m: u32) -> u32 {
    match m {
        1 | 3 | 5 | 7 | 8 | 10 | 12 => 31,
        4 | 6 | 9 | 11 => 30,
        _ => {
            if leap(y) {
                29
            } else {
                28
            }
        }
    }
}

fn ymd(y: i32, m: u32, d: u32) -> Option<NaiveDate> {
    if d >= 1 && d <= days_in_month(y, m) {
        NaiveDate::from_ymd_opt(y, m, d)
    } else {
        None
    }
}

/// Gregorian Easter Sunday, Oudin's algorithm (1940).
pub fn easter(y: i32) -> NaiveDate {
    let g = y % 19;
    let c = y / 100;
    let h = (c - c / 4 - (8 * c + 13) / 25 + 19 * g + 15) % 30;
    let i = h - (h / 28) * (1 - (29 / (h + 1)) * ((21 - g) / 11));
    let j = (y + y / 4 + i + 2 - c + c / 4) % 7;
    let l = i - j;
    let m = 3 + (l + 40) / 44;
    let d = l + 28 - 31 * (m / 4);
    NaiveDate::from_ymd_opt(y, m as u32, d as u32).unwrap()
}

fn wd_idx(w: Weekday) -> i64 {
    w.num_days_from_monday() as i64
}

/// ISO-8601 week number: the week of the Thursday of this date's week.
pub fn iso_week(d: NaiveDate) -> u32 {
    let thu = d + Duration::days(3 - wd_idx(d.weekday()));
    (thu.ordinal0() / 7) + 1
}

pub fn apply_offset(d: NaiveDate, off: &ds::DateOffset) -> Option<NaiveDate> {
    let d = d.checked_add_signed(Duration::try_days(off.day_offset)?)?;
    match off.wday_offset {
        ds::WeekDayOffset::None => Some(d),
        ds::WeekDayOffset::Next(t) => {
            let k = (wd_idx(t) - wd_idx(d.weekday())).rem_euclid(7);
            d.checked_add_signed(Duration::days(k))
        }
        ds::WeekDayOffset::Prev(t) => {
            let k = (wd_idx(d.weekday()) - wd_idx(t)).rem_euclid(7);
            d.checked_sub_signed(Duration::days(k))
        }
    }
}

#[derive(Clone, Copy)]
pub enum Clamp {
    Exact,
    After,
    Before,
}

/// Resolve a date of the syntax tree in year `y` (`None` if it carries another year, or does not
/// exist with `Clamp::Exact`).
pub fn resolve(date: &ds::Date, y: i32, clamp: Clamp) -> Option<NaiveDate> {
    match date {
        ds::Date::Easter { year } => {
            if year.is_some_and(|y0| i32::from(y0) != y) {
                return None;
            }
            Some(easter(y))
        }
        ds::Date::Fixed { year, month, day } => {
            if year.is_some_and(|y0| i32::from(y0) != y) {
                return None;
            }
            let m = *month as u32;
            let d = u32::from(*day);
            match ymd(y, m, d) {
                Some(x) => Some(x),
                None => match clamp {
                    Clamp::Exact => None,
                    Clamp::After => {
                        if m == 12 {
                            NaiveDate::from_ymd_opt(y + 1, 1, 1)
                        } else {
                            NaiveDate::from_ymd_opt(y, m + 1, 1)
                        }
                    }
                    Clamp::Before => NaiveDate::from_ymd_opt(y, m, days_in_month(y, m)),
                },
            }
        }
    }
}

pub fn date_year(d: &ds::Date) -> Option<i32> {
    match d {
        ds::Date::Easter { year } | ds::Date::Fixed { year, .. } => year.map(i32::from),
    }
}

fn resolved(end: &(ds::Date, ds::DateOffset), y: i32, clamp: Clamp) -> Option<NaiveDate> {
    resolve(&end.0, y, clamp).and_then(|x| apply_offset(x, &end.1))
}

/// The intervals `[s, e]` a year-less date range denotes for start years `years`.
pub fn yearless_intervals(
    start: &(ds::Date, ds::DateOffset),
    end: &(ds::Date, ds::DateOffset),
    years: std::ops::RangeInclusive<i32>,
) -> Vec<(NaiveDate, NaiveDate)> {
    let mut res = Vec::new();
    for yy in years {
        let Some(s) = resolved(start, yy, Clamp::After) else { continue };
        let e = (yy - 1..=yy + 2)
            .filter_map(|y2| resolved(end, y2, Clamp::Before))
            .filter(|e| *e >= s)
            .min();
        if let Some(e) = e {
            res.push((s, e));
        }
    }
    res
}

/// The single interval a range with a dated start denotes.
pub fn dated_interval(
    start: &(ds::Date, ds::DateOffset),
    end: &(ds::Date, ds::DateOffset),
) -> Option<(NaiveDate, NaiveDate)> {
    let sy = date_year(&start.0)?;
    let s = resolved(start, sy, Clamp::After)?;
    let e = match date_year(&end.0) {
        Some(ey) => resolved(end, ey, Clamp::Before),
        None => (sy - 1..=sy + 2)
            .filter_map(|yy| resolved(end, yy, Clamp::Before))
            .find(|e| *e >= s),
    }?;
    Some((s, e))
}

/// Day number (days from 0001-01-01, proleptic Gregorian) of a dated end of a range, with its offset applied in
/// unbounded integer arithmetic: `2000 Jan 1 -200000000000 days` is a day number far below anything a date type
/// can hold, and the range it starts still contains every day up to its end. `None`: the combination of a
/// weekday offset with a day offset (U4), or a date that does not resolve.
fn dated_end_number(side: &(ds::Date, ds::DateOffset), clamp: Clamp) -> Option<i128> {
    let y = date_year(&side.0)?;
    let base = resolve(&side.0, y, clamp)?;
    match side.1.wday_offset {
        ds::WeekDayOffset::None => Some(i128::from(base.num_days_from_ce()) + i128::from(side.1.day_offset)),
        _ if side.1.day_offset == 0 => apply_offset(base, &side.1).map(|x| i128::from(x.num_days_from_ce())),
        _ => None,
    }
}

/// The single interval of a range whose two ends carry a year, as day numbers.
pub fn doubly_dated_interval(start: &(ds::Date, ds::DateOffset), end: &(ds::Date, ds::DateOffset)) -> Option<(i128, i128)> {
    Some((dated_end_number(start, Clamp::After)?, dated_end_number(end, Clamp::Before)?))
}

fn monthday_match(r: &ds::MonthdayRange, d: NaiveDate) -> bool {
    let y = d.year();
    match r {
        ds::MonthdayRange::Month { range, year } => {
            if year.is_some_and(|y0| i32::from(y0) != y) {
                return false;
            }
            let (a, b) = (*range.start() as u32, *range.end() as u32);
            let m = d.month();
            if a <= b {
                a <= m && m <= b
            } else {
                m >= a || m <= b
            }
        }
        ds::MonthdayRange::Date { start, end } => {
            if start == end {
                // a single date: matches only where it exists exactly
                return (y - 1..=y + 1).any(|yy| {
                    resolve(&start.0, yy, Clamp::Exact).and_then(|x| apply_offset(x, &start.1)) == Some(d)
                });
            }
            if date_year(&start.0).is_some() && date_year(&end.0).is_some() {
                let n = i128::from(d.num_days_from_ce());
                return doubly_dated_interval(start, end).is_some_and(|(s, e)| s <= n && n <= e);
            }
            if date_year(&start.0).is_some() {
                return dated_interval(start, end).is_some_and(|(s, e)| s <= d && d <= e);
            }
            yearless_intervals(start, end, y - 2..=y + 1)
                .into_iter()
                .any(|(s, e)| s <= d && d <= e)
        }
    }
}

fn weekday_match(r: &ds::WeekDayRange, d: NaiveDate, ctx: &MCtx) -> bool {
    match r {
        ds::WeekDayRange::Fixed { range, offset, nth_from_start, nth_from_end } => {
            let Some(d2) = Duration::try_days(*offset).and_then(|o| d.checked_sub_signed(o)) else {
                return false;
            };
            let (a, b) = (wd_idx(*range.start()), wd_idx(*range.end()));
            let w = wd_idx(d2.weekday());
            let in_range = if a <= b { a <= w && w <= b } else { w >= a || w <= b };
            let pos_start = ((d2.day() - 1) / 7) as usize;
            let pos_end = ((days_in_month(d2.year(), d2.month()) - d2.day()) / 7) as usize;
            in_range && (nth_from_start[pos_start] || nth_from_end[pos_end])
        }
        ds::WeekDayRange::Holiday { kind, offset } => {
            let Some(d2) = Duration::try_days(*offset).and_then(|o| d.checked_sub_signed(o)) else {
                return false;
            };
            match kind {
                ds::HolidayKind::Public => ctx.ph.contains(&d2),
                ds::HolidayKind::School => ctx.sh.contains(&d2),
            }
        }
    }
}

fn year_match(r: &ds::YearRange, y: i32) -> bool {
    let (a, b) = (i32::from(r.range.start().0), i32::from(r.range.end().0));
    let st = i32::from(r.step.max(1));
    if a <= b {
        a <= y && y <= b && (y - a) % st == 0
    } else {
        (y >= a || y <= b) && (y - a).abs() % st == 0
    }
}

fn week_match(r: &ds::WeekRange, w: i32) -> bool {
    let (a, b) = (i32::from(r.range.start().0), i32::from(r.range.end().0));
    let st = i32::from(r.step.max(1));
    if a <= b {
        a <= w && w <= b && (w - a) % st == 0
    } else {
        (w >= a || w <= b) && (w - a).max(0) % st == 0
    }
}

/// Does day `d` satisfy all selectors of the rule?
pub fn day_match(s: &ds::DaySelector, d: NaiveDate, ctx: &MCtx) -> bool {
    let y = d.year();
    (s.year.is_empty() || s.year.iter().any(|r| year_match(r, y)))
        && (s.monthday.is_empty() || s.monthday.iter().any(|r| monthday_match(r, d)))
        && (s.week.is_empty() || s.week.iter().any(|r| week_match(r, iso_week(d) as i32)))
        && (s.weekday.is_empty() || s.weekday.iter().any(|r| weekday_match(r, d, ctx)))
}

pub fn event_base(e: ts::TimeEvent) -> i32 {
    match e {
        ts::TimeEvent::Dawn => 360,
        ts::TimeEvent::Sunrise => 420,
        ts::TimeEvent::Sunset => 1140,
        ts::TimeEvent::Dusk => 1200,
    }
}

fn time_mins(t: &ts::Time) -> i32 {
    match t {
        ts::Time::Fixed(e) => i32::from(e.mins_from_midnight()),
        ts::Time::Variable(v) => {
            let x = event_base(v.event) + i32::from(v.offset);
            if (0..=2880).contains(&x) {
                x
            } else {
                0
            }
        }
    }
}

/// `[t1, t2)` in minutes for every span; `t2 <= t1` wraps to the next day.
pub fn spans(tsel: &ts::TimeSelector) -> Vec<(i32, i32)> {
    tsel.time
        .iter()
        .map(|sp| {
            let a = time_mins(&sp.range.start);
            let mut b = time_mins(&sp.range.end);
            if a >= b {
                b += 1440;
            }
            (a, b.min(2880))
        })
        .collect()
}

pub fn in_supported_range(d: NaiveDate) -> bool {
    (1900..=9999).contains(&d.year())
}

#[derive(Default, Clone, Debug)]
pub struct DayInfo {
    /// Some rule with a non-empty day selector matched the day or the day before.
    pub selective_rule_applied: bool,
    /// A span continued from the previous day was painted.
    pub spill_painted: bool,
    /// Number of rules contributing minutes.
    pub contributing_rules: u32,
    /// A fallback rule took over.
    pub fallback_used: bool,
}

/// The documented schedule of day `d`: one kind per minute.
pub fn eval_day(e: &rl::OpeningHoursExpression, d: NaiveDate, ctx: &MCtx) -> ([K; 1440], DayInfo) {
    let (out, info, _) = eval_day_full(e, d, ctx, false);
    (out, info)
}

/// What a rule painted on a day, as far as it survives: the minutes of its spans (today's and
/// those continued from yesterday), whether or not a later overlay covers some of them. A later
/// normal open/unknown rule matching the day, or a fallback taking over, wipes the earlier ones.
pub struct Contribution {
    pub rule: usize,
    pub minutes: Box<[bool; 1440]>,
}

/// `eval_day` plus, when `want_contributions` is set, the surviving contributions per rule.
pub fn eval_day_full(e: &rl::OpeningHoursExpression, d: NaiveDate, ctx: &MCtx, want_contributions: bool) -> ([K; 1440], DayInfo, Vec<Contribution>) {
    let mut info = DayInfo::default();
    let mut contributions: Vec<Contribution> = Vec::new();
    if !in_supported_range(d) {
        return ([K::C; 1440], info, contributions);
    }
    let mut st: [Option<K>; 1440] = [None; 1440];
    for (rule_idx, r) in e.rules.iter().enumerate() {
        let kind = K::of(r.kind);
        let mt = day_match(&r.day_selector, d, ctx);
        let my = d.pred_opt().is_some_and(|p| in_supported_range_or_before(p) && day_match(&r.day_selector, p, ctx));
        let mut layer = [false; 1440];
        let mut spill = false;
        let mut any = false;
        for (a, b) in spans(&r.time_selector) {
            if mt {
                for m in a.max(0)..b.min(1440) {
                    layer[m as usize] = true;
                    any = true;
                }
            }
            if my {
                for m in (a.max(1440) - 1440)..(b - 1440).max(0) {
                    layer[m as usize] = true;
                    spill = true;
                    any = true;
                }
            }
        }
        let has = mt || my;
        if has && !r.day_selector.is_empty() {
            info.selective_rule_applied = true;
        }
        let overlay = |st: &mut [Option<K>; 1440]| {
            for m in 0..1440 {
                if layer[m] {
                    st[m] = Some(kind);
                }
            }
        };
        let mut contributed = false;
        match (r.operator, r.kind) {
            (rl::RuleOperator::Normal, rl::RuleKind::Open | rl::RuleKind::Unknown) => {
                if mt {
                    st = [None; 1440];
                    contributions.clear();
                    overlay(&mut st);
                    contributed = true;
                } else if has {
                    overlay(&mut st);
                    contributed = any;
                }
            }
            (rl::RuleOperator::Additional, _) | (rl::RuleOperator::Normal, rl::RuleKind::Closed) => {
                if has {
                    overlay(&mut st);
                    contributed = any;
                }
            }
            (rl::RuleOperator::Fallback, _) => {
                let covered = st.iter().any(|x| matches!(x, Some(K::O) | Some(K::U)));
                if !covered {
                    st = [None; 1440];
                    contributions.clear();
                    if has {
                        overlay(&mut st);
                        contributed = any;
                        info.fallback_used = any;
                    }
                }
            }
        }
        if contributed && want_contributions {
            contributions.push(Contribution { rule: rule_idx, minutes: Box::new(layer) });
        }
        if contributed {
            info.contributing_rules += 1;
            if spill {
                info.spill_painted = true;
            }
        }
    }
    let mut out = [K::C; 1440];
    for m in 0..1440 {
        out[m] = st[m].unwrap_or(K::C);
    }
    (out, info, contributions)
}

/// The spill of 1899-12-31 into 1900-01-01: the library evaluates selectors on the previous day
/// even when that day lies before the supported range, and so does the model (selectors are
/// total functions of the date; only the *schedule* is closed outside the range).
fn in_supported_range_or_before(_d: NaiveDate) -> bool {
    true
}

// ---- decided domain (DESIGN.md 2.4) -------------------------------------------------------

fn month_max_days(m: ds::Month) -> u32 {
    match m as u32 {
        2 => 29,
        4 | 6 | 9 | 11 => 30,
        _ => 31,
    }
}

fn never_exists(d: &ds::Date) -> bool {
    matches!(d, ds::Date::Fixed { month, day, .. } if u32::from(*day) > month_max_days(*month))
}

fn sometimes_missing(d: &ds::Date) -> bool {
    matches!(d, ds::Date::Fixed { month: ds::Month::February, day: 29, .. })
}

fn same_calendar_day(a: &ds::Date, b: &ds::Date) -> bool {
    match (a, b) {
        (ds::Date::Easter { .. }, ds::Date::Easter { .. }) => true,
        (ds::Date::Fixed { month: m1, day: d1, .. }, ds::Date::Fixed { month: m2, day: d2, .. }) => m1 == m2 && d1 == d2,
        _ => false,
    }
}

/// Returns the carve-out tag when the specification does not decide the meaning of the
/// expression (C01 skips it; every other property keeps it).
pub fn undecided(e: &rl::OpeningHoursExpression) -> Option<&'static str> {
    for r in &e.rules {
        let s = &r.day_selector;
        for yr in &s.year {
            if yr.range.start() > yr.range.end() && yr.step != 1 {
                return Some("U1:wrapping-year-range-with-step");
            }
        }
        for wr in &s.week {
            if wr.range.start() > wr.range.end() && wr.step != 1 {
                return Some("U2:wrapping-week-range-with-step");
            }
        }
        for wd in &s.weekday {
            let off = match wd {
                ds::WeekDayRange::Fixed { offset, .. } | ds::WeekDayRange::Holiday { offset, .. } => *offset,
            };
            if off.abs() > 40 {
                return Some("U7:large-day-offset");
            }
        }
        for md in &s.monthday {
            match md {
                ds::MonthdayRange::Month { range, year: Some(_) } if range.start() > range.end() => {
                    return Some("U3:wrapping-month-range-with-year");
                }
                ds::MonthdayRange::Month { .. } => {}
                ds::MonthdayRange::Date { start, end } => {
                    for side in [start, end] {
                        if side.1.wday_offset != ds::WeekDayOffset::None && side.1.day_offset != 0 {
                            return Some("U4:weekday-and-day-offset-combined");
                        }
                        // a single date is resolved exactly on the years around the probed one, so
                        // offsets below a year are decided; a range needs well separated ends
                        // ... and a range whose two ends carry a year is one interval whatever the offsets
                        let doubly_dated = start != end && date_year(&start.0).is_some() && date_year(&end.0).is_some();
                        let limit = if doubly_dated {
                            i64::MAX
                        } else if start == end && side.1.wday_offset == ds::WeekDayOffset::None {
                            300
                        } else {
                            40
                        };
                        if side.1.day_offset.unsigned_abs() > limit as u64 {
                            return Some("U7:large-day-offset");
                        }
                        if date_year(&side.0).is_some_and(|y| y > 9999) {
                            return Some("U10:short-form-past-9999");
                        }
                    }
                    if start == end {
                        continue; // single date: decided (exact resolution)
                    }
                    if never_exists(&start.0) || never_exists(&end.0) {
                        // tested form: both ends in the same month, end clamped to the month's
                        // last day ("Feb 1-Feb 31", "Apr 10-31")
                        let same_month_end_clamp = matches!((&start.0, &end.0),
                            (ds::Date::Fixed { month: m1, year: y1, .. }, ds::Date::Fixed { month: m2, year: y2, .. })
                                if m1 == m2 && y1 == y2)
                            && !never_exists(&start.0)
                            && start.1 == ds::DateOffset::default()
                            && end.1 == ds::DateOffset::default();
                        if !same_month_end_clamp {
                            return Some("U5:endpoint-on-day-that-never-exists");
                        }
                    }
                    if same_calendar_day(&start.0, &end.0) && date_year(&start.0) == date_year(&end.0) {
                        return Some("U5:same-day-ends-with-different-offsets");
                    }
                    if (sometimes_missing(&start.0) || sometimes_missing(&end.0))
                        && (start.1 != ds::DateOffset::default() || end.1 != ds::DateOffset::default())
                    {
                        return Some("U5:feb29-endpoint-with-offset");
                    }
                    match (date_year(&start.0), date_year(&end.0)) {
                        (None, Some(_)) => return Some("U6:yearless-start-dated-end"),
                        (Some(_), Some(_)) => match doubly_dated_interval(start, end) {
                            None => return Some("U6:dated-end-precedes-start"),
                            Some((s, e)) if e < s => return Some("U6:dated-end-precedes-start"),
                            Some(_) => {}
                        },
                        (Some(_), _) => match dated_interval(start, end) {
                            None => return Some("U6:dated-end-precedes-start"),
                            Some((s, e)) if e < s => return Some("U6:dated-end-precedes-start"),
                            Some(_) => {}
                        },
                        (None, None) => {
                            for base in [2019, 2023, 2037] {
                                if !yearless_separated(start, end, base) {
                                    return Some("U7:yearless-intervals-not-separated");
                                }
                            }
                        }
                    }
                }
            }
        }
        for sp in &r.time_selector.time {
            if sp.repeats.is_some() {
                return Some("U9:repeated-span");
            }
            for t in [&sp.range.start, &sp.range.end] {
                if let ts::Time::Variable(v) = t {
                    let x = event_base(v.event) + i32::from(v.offset);
                    if !(0..=1440).contains(&x) {
                        return Some("U8:event-offset-leaves-the-day");
                    }
                }
            }
        }
    }
    None
}

/// U7: the yearly intervals of a year-less range must be well separated (>= 2 days apart) around
/// year `base`, otherwise which start pairs with which end is undecided.
fn yearless_separated(start: &(ds::Date, ds::DateOffset), end: &(ds::Date, ds::DateOffset), base: i32) -> bool {
    let iv = yearless_intervals(start, end, base - 2..=base + 2);
    if iv.len() != 5 || !iv.windows(2).all(|w| (w[1].0 - w[0].1).num_days() >= 2) {
        return false;
    }
    // The pairing "first end on or after the start" must coincide with the nominal pairing
    // "end of the same year, or of the next year when it precedes the start"; when offsets push
    // an end across a year boundary (`Jan 2-Dec 31 +2 days`) the two readings differ and the
    // meaning is undecided.
    for (k, yy) in (base - 2..=base + 2).enumerate() {
        let Some(s) = resolved(start, yy, Clamp::After) else { return false };
        let nominal = match resolved(end, yy, Clamp::Before) {
            Some(e) if e >= s => Some(e),
            _ => resolved(end, yy + 1, Clamp::Before),
        };
        if nominal != Some(iv[k].1) || iv[k].0 != s {
            return false;
        }
    }
    true
}

/// Year-dependent part of the decided domain (U7), evaluated for the probe date's year.
pub fn undecided_at(e: &rl::OpeningHoursExpression, year: i32) -> Option<&'static str> {
    for r in &e.rules {
        for md in &r.day_selector.monthday {
            if let ds::MonthdayRange::Date { start, end } = md {
                if start != end && date_year(&start.0).is_none() && date_year(&end.0).is_none() && !yearless_separated(start, end, year) {
                    return Some("U7:yearless-intervals-not-separated");
                }
            }
        }
    }
    None
}

#[cfg(test)]
mod tests {
    use super::*;

    #[test]
    fn easter_known_dates() {
        // the ten dates of the library's own test plus a few classics
        for (y, m, d) in [
            (1901, 4, 7), (1961, 4, 2), (2024, 3, 31), (2025, 4, 20), (2050, 4, 10), (2106, 4, 18),
            (2200, 4, 6), (3000, 4, 13), (1943, 4, 25), (2038, 4, 25), (1818, 3, 22), (2285, 3, 22),
        ] {
            assert_eq!(easter(y), NaiveDate::from_ymd_opt(y, m, d).unwrap());
        }
    }

    #[test]
    fn iso_week_matches_chrono() {
        let mut d = NaiveDate::from_ymd_opt(1899, 12, 20).unwrap();
        while d.year() < 2500 {
            assert_eq!(iso_week(d), d.iso_week().week(), "{d}");
            d = d.succ_opt().unwrap();
        }
    }
}
