use std::path::Path;

use ohv::engine::{run_property, run_replay_file, ReplayResult};
use ohv::props;
use ohv::runner::{install_panic_hook, Tier};

fn usage() -> ! {
    eprintln!("usage: ohv run <Cxx> <quick|thorough> [--only <check>] | ohv replay <file> | ohv list");
    std::process::exit(2)
}

fn main() {
    let args: Vec<String> = std::env::args().collect();
    match args.get(1).map(String::as_str) {
        Some("run") => {
            let (Some(id), Some(tier)) = (args.get(2), args.get(3)) else { usage() };
            let tier = match tier.as_str() {
                "quick" => Tier::Quick,
                "thorough" => Tier::Thorough,
                _ => usage(),
            };
            let only = args
                .iter()
                .position(|a| a == "--only")
                .and_then(|i| args.get(i + 1))
                .map(String::as_str);
            let Some(prop) = props::by_id(id) else {
                eprintln!("unknown property {id}");
                std::process::exit(2)
            };
            install_panic_hook();
            std::process::exit(run_property(&prop, tier, only));
        }
        Some("replay") => {
            let Some(file) = args.get(2) else { usage() };
            let content = std::fs::read_to_string(file).unwrap_or_default();
            let v: serde_json::Value = serde_json::from_str(&content).unwrap_or_default();
            let id = v["property"].as_str().unwrap_or("");
            let Some(prop) = props::by_id(id) else {
                eprintln!("replay file names unknown property `{id}`");
                std::process::exit(2)
            };
            install_panic_hook();
            match run_replay_file(&prop, Path::new(file)) {
                ReplayResult::Pass(case) => {
                    println!("PASS {} :: {}", id, case.key);
                    std::process::exit(0)
                }
                ReplayResult::Fail(case, msg) => {
                    println!("VIOLATION property={id} replay={file}");
                    println!("  detail: {} :: {msg}", case.key);
                    std::process::exit(1)
                }
                ReplayResult::Broken(m) => {
                    println!("INCONCLUSIVE: {m}");
                    std::process::exit(2)
                }
            }
        }
        Some("c18-child") => {
            let order: Vec<usize> = args.get(2).map(|s| s.split(',').filter_map(|x| x.parse().ok()).collect()).unwrap_or_default();
            let threads: usize = args.get(3).and_then(|s| s.parse().ok()).unwrap_or(2);
            ohv::props::c18::child_main(&order, threads);
        }
        Some("py-oracle") => ohv::pyoracle::serve(),
        Some("gen-exprs") => {
            let seed: u64 = args.get(2).and_then(|s| s.parse().ok()).unwrap_or(0);
            let count: usize = args.get(3).and_then(|s| s.parse().ok()).unwrap_or(100);
            ohv::pyoracle::gen_exprs(seed, count);
        }
        Some("geo-stats") => {
            let t = std::time::Instant::now();
            let g = ohv::geo::geo();
            println!("zone pairs {} country pairs {} junctions {} lookups {} in {:?}", g.zone_pairs.len(), g.country_pairs.len(), g.junctions.len(), g.lookups, t.elapsed());
            for j in g.junctions.iter().take(40) {
                println!("  junction {:?} none points {:?}", j.countries, &j.none_points[..j.none_points.len().min(2)]);
            }
            for p in g.zone_pairs.iter().take(5) {
                println!("  zone pair {:?} {} | {}", p, ohv::geo::tz_of(p.0), ohv::geo::tz_of(p.1));
            }
        }
        Some("list") => {
            for p in props::all() {
                let subs: Vec<&str> = p.subs.iter().map(|s| s.name).collect();
                println!("{} {}", p.id, subs.join(" "));
            }
        }
        _ => usage(),
    }
}
