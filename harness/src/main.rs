use std::path::Path;

use ohv::engine::{run_property, run_replay_file, ReplayResult};
use ohv::props;
use ohv::runner::{install_panic_hook, Tier};

fn usage() -> ! {
    eprintln!("usage: ohv run <Cxx> <quick|thorough> [--only <check>] | ohv replay <file> | ohv list");
    std::process::exit(2)
}

fn main() {
    let args: Vec<String> = std::env::args().collect();
    match args.get(1).map(String::as_str) {
        Some("run") => {
            let (Some(id), Some(tier)) = (args.get(2), args.get(3)) else { usage() };
            let tier = match tier.as_str() {
                "quick" => Tier::Quick,
                "thorough" => Tier::Thorough,
                _ => usage(),
            };
            let only = args
                .iter()
                .position(|a| a == "--only")
                .and_then(|i| args.get(i + 1))
                .map(String::as_str);
            let Some(prop) = props::by_id(id) else {
                eprintln!("unknown property {id}");
                std::process::exit(2)
            };
            install_panic_hook();
            std::process::exit(run_property(&prop, tier, only));
        }
        Some("replay") => {
            let Some(file) = args.get(2) else { usage() };
            let content = std::fs::read_to_string(file).unwrap_or_default();
            let v: serde_json::Value = serde_json::from_str(&content).unwrap_or_default();
            let id = v["property"].as_str().unwrap_or("");
            let Some(prop) = props::by_id(id) else {
                eprintln!("replay file names unknown property `{id}`");
                std::process::exit(2)
            };
            install_panic_hook();
            match run_replay_file(&prop, Path::new(file)) {
                ReplayResult::Pass(case) => {
                    println!("PASS {} :: {}", id, case.key);
                    std::process::exit(0)
                }
                ReplayResult::Fail(case, msg) => {
                    println!("VIOLATION property={id} replay={file}");
                    println!("  detail: {} :: {msg}", case.key);
                    std::process::exit(1)
                }
                ReplayResult::Broken(m) => {
                    println!("INCONCLUSIVE: {m}");
                    std::process::exit(2)
                }
            }
        }
        Some("c18-child") => {
            let order: Vec<usize> = args.get(2).map(|s| s.split(',').filter_map(|x| x.parse().ok()).collect()).unwrap_or_default();
            let threads: usize = args.get(3).and_then(|s| s.parse().ok()).unwrap_or(2);
            ohv::props::c18::child_main(&order, threads);
        }
        Some("py-oracle") => ohv::pyoracle::serve(),
        Some("gen-exprs") => {
            let seed: u64 = args.get(2).and_then(|s| s.parse().ok()).unwrap_or(0);
            let count: usize = args.get(3).and_then(|s| s.parse().ok()).unwrap_or(100);
            ohv::pyoracle::gen_exprs(seed, count);
        }
        Some("list") => {
            for p in props::all() {
                let subs: Vec<&str> = p.subs.iter().map(|s| s.name).collect();
                println!("{} {}", p.id, subs.join(" "));
            }
        }
        _ => usage(),
    }
}
