//! Entry points of the libFuzzer targets in /verif/fuzz (the oracles live here so that the
//! targets and the proptest driver share every line of them).

use std::sync::Once;

use crate::choice::{bytes_to_choices, Choices};
use crate::props;
use crate::runner::{exec, install_panic_hook, Case};

static INIT: Once = Once::new();

fn init() {
    INIT.call_once(install_panic_hook);
}

/// Make libFuzzer record a crash with a readable message.
fn report(what: &str, message: &str) -> ! {
    eprintln!("\nOHV-FUZZ-VIOLATION [{what}] {message}\n");
    std::process::abort()
}

/// Bytes up to the first 0xFF (or all of them) are the expression text (lossy UTF-8); the rest
/// drives the evaluation (contexts, instants).
pub fn parse_total(data: &[u8]) {
    init();
    let split = data.iter().position(|b| *b == 0xFF).unwrap_or(data.len());
    let text = String::from_utf8_lossy(&data[..split]).into_owned();
    let tail = bytes_to_choices(data.get(split + 1..).unwrap_or(&[]));
    let mut case = Case::default();
    opening_hours::verif_hooks::reset();
    let mut ch = Choices::new(&tail);
    let r = crate::runner::guard(|| {
        props::c04::exercise(props::c04::Mode::Fuzz, &text, &mut ch, Default::default(), &mut case).map(|_| ())
    });
    match r {
        Ok(Ok(())) => {}
        Ok(Err(m)) => report("C04", &m),
        Err(p) => report("C04", &format!("`{text}`: panic outside of a guarded call: {p}")),
    }
}

/// Choice-sequence decoding + semantic oracles.
pub fn consistency(data: &[u8]) {
    init();
    if data.is_empty() {
        return;
    }
    let choices = bytes_to_choices(&data[1..]);
    // the first byte selects the oracle, so that the corpus keeps inputs for each of them
    let table: [(&str, &str); 8] = [
        ("C01", "semantics"),
        ("C02", "windows"),
        ("C06", "roundtrip"),
        ("C07", "meaning"),
        ("C13", "idempotent"),
        ("C05", "positive"),
        ("C17", "wellformed"),
        ("C16", "bound_relation"),
    ];
    // VERIF_FUZZ_ORACLE=<property id> pins the oracle (thorough tier of that property)
    static PINNED: std::sync::OnceLock<Option<usize>> = std::sync::OnceLock::new();
    let pinned = *PINNED.get_or_init(|| {
        let want = std::env::var("VERIF_FUZZ_ORACLE").ok()?;
        table.iter().position(|(p, _)| p.eq_ignore_ascii_case(&want))
    });
    let (prop, sub) = table[pinned.unwrap_or(usize::from(data[0]) % table.len())];
    let property = props::by_id(prop).expect("property");
    let check = property.subs.iter().find(|s| s.name == sub).expect("sub-check");
    let mut case = Case::default();
    if let Err(m) = exec(check.f, &choices, &mut case) {
        report(&format!("{prop}:{sub}"), &format!("{} :: {m}", case.key));
    }
}
