//! Orchestration of one property run: pinned replays, generated search, evidence, verdict.

use std::path::{Path, PathBuf};
use std::time::Instant;

use serde_json::{json, Value};

use crate::known;
use crate::runner::{exec, exec_text, run_sub, Case, Failure, Stats, SubCheck, SubOutcome, Tier};

pub struct Property {
    pub id: &'static str,
    pub subs: Vec<SubCheck>,
    /// Bespoke parts (exhaustive enumerations, child processes, ...).
    pub extra: Option<fn(Tier, u64) -> Vec<SubOutcome>>,
    pub assumptions: Vec<&'static str>,
}

pub fn seed_from_env() -> u64 {
    std::env::var("VERIF_SEED")
        .ok()
        .and_then(|s| s.trim().parse::<i64>().ok())
        .map(|v| v.unsigned_abs() % 1_000_000_000)
        .unwrap_or(0)
}

fn hash_hex(s: &str) -> String {
    use std::hash::{Hash, Hasher};
    let mut h = std::collections::hash_map::DefaultHasher::new();
    s.hash(&mut h);
    format!("{:012x}", h.finish() & 0xffff_ffff_ffff)
}

pub fn write_replay(prop: &str, failure: &Failure) -> PathBuf {
    let dir = known::verif_root().join("replays").join(prop).join("new");
    let _ = std::fs::create_dir_all(&dir);
    let body = json!({
        "property": prop,
        "check": failure.sub,
        "choices": failure.choices,
        "text": failure.text,
        "rendered": failure.key,
        "message": failure.message,
    });
    let name = format!(
        "{}-{}.json",
        failure.sub,
        hash_hex(&format!("{:?}{:?}{}", failure.choices, failure.text, failure.key))
    );
    let path = dir.join(name);
    let _ = std::fs::write(&path, serde_json::to_string_pretty(&body).unwrap());
    path
}

pub enum ReplayResult {
    Pass(Case),
    Fail(Case, String),
    Broken(String),
}

pub fn run_replay_file(prop: &Property, path: &Path) -> ReplayResult {
    let Ok(content) = std::fs::read_to_string(path) else {
        return ReplayResult::Broken(format!("cannot read {}", path.display()));
    };
    let Ok(v) = serde_json::from_str::<Value>(&content) else {
        return ReplayResult::Broken(format!("invalid JSON in {}", path.display()));
    };
    let check = v["check"].as_str().unwrap_or("");
    let Some(sub) = prop.subs.iter().find(|s| s.name == check) else {
        return ReplayResult::Broken(format!("unknown check `{check}` in {}", path.display()));
    };
    let mut case = Case::default();
    let r = if let Some(text) = v["text"].as_str() {
        match sub.text_f {
            Some(f) => exec_text(f, text, &mut case),
            None => return ReplayResult::Broken(format!("check `{check}` has no text entry point")),
        }
    } else {
        let choices: Vec<u16> = v["choices"]
            .as_array()
            .map(|a| a.iter().filter_map(|x| x.as_u64()).map(|x| x as u16).collect())
            .unwrap_or_default();
        exec(sub.f, &choices, &mut case)
    };
    match r {
        Ok(()) => ReplayResult::Pass(case),
        Err(m) => ReplayResult::Fail(case, m),
    }
}

fn pinned_replays(prop: &str) -> Vec<PathBuf> {
    let dir = known::verif_root().join("replays").join(prop);
    let mut v: Vec<PathBuf> = std::fs::read_dir(dir)
        .into_iter()
        .flatten()
        .flatten()
        .map(|e| e.path())
        .filter(|p| p.extension().is_some_and(|e| e == "json"))
        .collect();
    v.sort();
    v
}

fn rel(path: &Path) -> String {
    path.strip_prefix(known::verif_root())
        .unwrap_or(path)
        .to_string_lossy()
        .to_string()
}

/// Run a property; returns the process exit code.
pub fn run_property(prop: &Property, tier: Tier, only: Option<&str>) -> i32 {
    let seed = seed_from_env();
    let start = Instant::now();
    let mut violations: Vec<(String, String)> = Vec::new(); // (replay path, message)
    let mut known_lines: Vec<String> = Vec::new();
    let mut broken: Vec<String> = Vec::new();
    let mut replay_report: Vec<Value> = Vec::new();

    // 1. pinned replays (seconds-long regression tier)
    for path in pinned_replays(prop.id) {
        let relp = rel(&path);
        match run_replay_file(prop, &path) {
            ReplayResult::Pass(_) => {
                if let Some(k) = known::for_replay(prop.id, &relp) {
                    println!(
                        "NOTE: known finding {} no longer reproduces from {}",
                        k.id, relp
                    );
                }
                replay_report.push(json!({"file": relp, "result": "pass"}));
            }
            ReplayResult::Fail(case, msg) => {
                if let Some(k) = known::for_replay(prop.id, &relp) {
                    known_lines.push(format!(
                        "KNOWN-FINDING: property={} {} [{}] {}",
                        prop.id, k.text, k.id, case.key
                    ));
                    replay_report.push(json!({"file": relp, "result": "known-finding", "id": k.id}));
                } else {
                    violations.push((relp.clone(), format!("{} :: {}", case.key, msg)));
                    replay_report.push(json!({"file": relp, "result": "FAIL", "message": msg}));
                }
            }
            ReplayResult::Broken(m) => broken.push(m),
        }
    }

    // 2. generated search
    let mut outcomes: Vec<SubOutcome> = Vec::new();
    for sub in &prop.subs {
        if only.is_some_and(|o| o != sub.name) {
            continue;
        }
        if (tier == Tier::Quick && sub.cases_quick == 0)
            || (tier == Tier::Thorough && sub.cases_thorough == 0)
        {
            continue;
        }
        let out = run_sub(sub, tier, seed);
        eprintln!(
            "[{}:{}] cases={} nontrivial={} distinct={} failures={} wall={:.1}s",
            prop.id,
            sub.name,
            out.stats.cases,
            out.stats.nontrivial_total,
            out.stats.distinct(),
            out.failures.len(),
            out.wall_s
        );
        outcomes.push(out);
    }
    if only.is_none() {
        if let Some(extra) = prop.extra {
            for out in extra(tier, seed) {
                eprintln!(
                    "[{}:{}] cases={} nontrivial={} failures={} wall={:.1}s",
                    prop.id,
                    out.name,
                    out.stats.cases,
                    out.stats.nontrivial_total,
                    out.failures.len(),
                    out.wall_s
                );
                outcomes.push(out);
            }
        }
    }

    for out in &outcomes {
        for f in &out.failures {
            if f.message.starts_with("HARNESS-ABORT") {
                broken.push(f.message.clone());
                continue;
            }
            let path = write_replay(prop.id, f);
            violations.push((rel(&path), format!("[{}] {} :: {}", f.sub, f.key, f.message)));
        }
    }

    // 3. evidence
    let wall = start.elapsed().as_secs_f64();
    write_evidence(prop, tier, seed, &outcomes, &replay_report, &known_lines, violations.len(), wall);

    // 4. verdict
    for l in &known_lines {
        println!("{l}");
    }
    for (path, msg) in &violations {
        println!("VIOLATION property={} replay={}", prop.id, path);
        println!("  detail: {msg}");
    }
    for b in &broken {
        println!("INCONCLUSIVE: {b}");
    }
    if !violations.is_empty() {
        1
    } else if !broken.is_empty() {
        2
    } else {
        println!(
            "OK property={} tier={} seed={} wall={:.1}s",
            prop.id,
            tier.as_str(),
            seed,
            wall
        );
        0
    }
}

#[allow(clippy::too_many_arguments)]
fn write_evidence(
    prop: &Property,
    tier: Tier,
    seed: u64,
    outcomes: &[SubOutcome],
    replays: &[Value],
    known_lines: &[String],
    violations: usize,
    wall: f64,
) {
    let mut evaluations = 0u64;
    let mut distinct = 0u64;
    let mut comparisons = 0u64;
    let mut rules = Vec::new();
    let mut samples: Vec<Value> = Vec::new();
    let mut per_check = serde_json::Map::new();
    let mut exhaustive_all = !outcomes.is_empty();
    for out in outcomes {
        let s: &Stats = &out.stats;
        evaluations += s.cases;
        distinct += s.distinct();
        comparisons += s.units;
        exhaustive_all &= out.exhaustive;
        rules.push(format!("[{}] {}", out.name, out.rule));
        for k in s.samples.iter().take(4) {
            samples.push(json!({"check": out.name, "case": k}));
        }
        let mut by_label = serde_json::Map::new();
        for (l, v) in &s.samples_by_label {
            if let Some(first) = v.first() {
                by_label.insert((*l).to_string(), json!(first));
            }
        }
        per_check.insert(
            out.name.to_string(),
            json!({
                "cases": s.cases,
                "oracle_comparisons": s.units,
                "nontrivial": s.nontrivial_total,
                "distinct_nontrivial": s.distinct(),
                "labels": s.labels,
                "excluded": s.excluded,
                "sample_per_label": by_label,
                "wall_s": (out.wall_s * 100.0).round() / 100.0,
                "exhaustive": out.exhaustive,
                "failures": out.failures.len(),
            }),
        );
    }
    let body = json!({
        "property_id": prop.id,
        "tier": tier.as_str(),
        "seed": seed,
        "level": "exploration",
        "coverage": {
            "evaluations": evaluations,
            "distinct_nontrivial": distinct,
            "oracle_comparisons": comparisons,
            "rule": rules.join(" || "),
            "samples": samples,
            "exhaustive": exhaustive_all,
            "checks": per_check,
            "pinned_replays": replays,
            "known_findings_reported": known_lines,
        },
        "assumptions": prop.assumptions,
        "wall_s": (wall * 100.0).round() / 100.0,
        "violations": violations,
    });
    let dir = known::verif_root().join("evidence");
    let _ = std::fs::create_dir_all(&dir);
    let path = dir.join(format!("{}.json", prop.id));
    std::fs::write(path, serde_json::to_string_pretty(&body).unwrap()).expect("write evidence");
}
