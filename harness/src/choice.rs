//! Choice sequences: every structured generator of the harness draws from a `Choices` source.
//!
//! The source is a plain `&[u16]`; it is produced either by proptest (`vec(any::<u16>(), 0..N)`,
//! so that proptest owns every random bit, replays from a seed and shrinks by deleting elements
//! and lowering values) or by libFuzzer (byte pairs). Reading past the end yields 0 and every
//! generator is written so that alternative 0 is the simplest one; mapping to a range is monotone
//! (`v * n >> 16`), so lowering a raw value never yields a more complex alternative.

pub struct Choices<'a> {
    data: &'a [u16],
    pos: usize,
}

impl<'a> Choices<'a> {
    pub fn new(data: &'a [u16]) -> Self {
        Self { data, pos: 0 }
    }

    /// Number of raw values consumed so far (may exceed the length of the source).
    pub fn used(&self) -> usize {
        self.pos
    }

    /// True when reads already ran past the end of the source.
    pub fn exhausted(&self) -> bool {
        self.pos > self.data.len()
    }

    #[inline]
    pub fn raw(&mut self) -> u16 {
        let v = self.data.get(self.pos).copied().unwrap_or(0);
        self.pos += 1;
        v
    }

    /// Uniform-ish value in `0..n` (`1 <= n <= 65536`), monotone in the raw value.
    #[inline]
    pub fn draw(&mut self, n: u32) -> u32 {
        debug_assert!(n >= 1 && n <= 65536);
        (u32::from(self.raw()) * n) >> 16
    }

    /// Value in `0..n` for large `n` (consumes three raw values).
    pub fn draw_big(&mut self, n: u64) -> u64 {
        debug_assert!(n >= 1);
        let hi = u128::from(self.raw());
        let mid = u128::from(self.raw());
        let lo = u128::from(self.raw());
        let v = (hi << 32) | (mid << 16) | lo; // 48 bits
        ((v * u128::from(n)) >> 48) as u64
    }

    /// `true` with probability `pct` %; `false` is the simple alternative.
    #[inline]
    pub fn chance(&mut self, pct: u32) -> bool {
        self.draw(100) >= 100 - pct.min(100)
    }

    /// Index drawn according to weights; index 0 is the simplest alternative.
    pub fn weighted(&mut self, weights: &[u32]) -> usize {
        let total: u32 = weights.iter().sum();
        let mut v = self.draw(total.max(1));
        for (i, w) in weights.iter().enumerate() {
            if v < *w {
                return i;
            }
            v -= *w;
        }
        weights.len() - 1
    }

    /// Integer in `lo..=hi`, `lo` being the simplest.
    pub fn int(&mut self, lo: i64, hi: i64) -> i64 {
        debug_assert!(lo <= hi);
        let span = (hi - lo) as u64 + 1;
        if span <= 65536 {
            lo + i64::from(self.draw(span as u32))
        } else {
            lo + self.draw_big(span) as i64
        }
    }

    pub fn pick<T: Copy>(&mut self, items: &[T]) -> T {
        items[self.draw(items.len() as u32) as usize]
    }
}

/// Decode bytes handed over by a byte-level fuzzer into a choice sequence.
pub fn bytes_to_choices(bytes: &[u8]) -> Vec<u16> {
    bytes
        .chunks(2)
        .map(|c| u16::from(c[0]) | (u16::from(*c.get(1).unwrap_or(&0)) << 8))
        .collect()
}

/// Drop trailing zeros (reading past the end yields 0 anyway).
pub fn trim(choices: &[u16]) -> Vec<u16> {
    let mut v = choices.to_vec();
    while v.last() == Some(&0) {
        v.pop();
    }
    v
}
