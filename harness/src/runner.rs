//! Generic driver: runs a sub-check over proptest-generated choice sequences on parallel shards,
//! shrinks failures, collects coverage statistics, and replays saved cases.

use std::cell::RefCell;
use std::collections::{BTreeMap, HashSet};
use std::hash::{Hash, Hasher};
use std::panic::{catch_unwind, AssertUnwindSafe};
use std::sync::atomic::{AtomicBool, Ordering};
use std::sync::Mutex;
use std::time::Instant;

use proptest::collection::vec;
use proptest::prelude::any;
use proptest::prop_oneof;
use proptest::test_runner::{Config, RngSeed, TestCaseError, TestError, TestRunner};

use crate::choice::{trim, Choices};

#[derive(Clone, Copy, PartialEq, Eq, Debug)]
pub enum Tier {
    Quick,
    Thorough,
}

impl Tier {
    pub fn as_str(self) -> &'static str {
        match self {
            Tier::Quick => "quick",
            Tier::Thorough => "thorough",
        }
    }
}

/// What a check reports about one executed case.
#[derive(Default, Debug, Clone)]
pub struct Case {
    /// The case is non-trivial under the sub-check's stated rule.
    pub nontrivial: bool,
    /// Human readable rendering of the case (expression, date, ...); used for samples, replay
    /// files and for counting *distinct* non-trivial cases.
    pub key: String,
    /// Classification labels (generator distribution, reported in the evidence).
    pub labels: Vec<&'static str>,
    /// Set when the case was skipped on purpose (undecided domain, known finding, work cap).
    pub excluded: Option<String>,
    /// Number of oracle comparisons performed by this case.
    pub units: u64,
}

impl Case {
    pub fn label(&mut self, l: &'static str) {
        if !self.labels.contains(&l) {
            self.labels.push(l);
        }
    }
    pub fn exclude(&mut self, why: impl Into<String>) {
        self.excluded = Some(why.into());
    }
}

pub type CheckFn = fn(&mut Choices, &mut Case) -> Result<(), String>;
pub type TextFn = fn(&str, &mut Case) -> Result<(), String>;

pub struct SubCheck {
    pub name: &'static str,
    /// How cases are generated and what makes one non-trivial.
    pub rule: &'static str,
    pub f: CheckFn,
    /// Optional entry point for replay files holding a raw text input.
    pub text_f: Option<TextFn>,
    pub cases_quick: u64,
    pub cases_thorough: u64,
    pub max_choices: usize,
}

#[derive(Debug, Clone)]
pub struct Failure {
    pub sub: String,
    pub choices: Vec<u16>,
    pub text: Option<String>,
    pub key: String,
    pub message: String,
}

#[derive(Default)]
pub struct Stats {
    pub cases: u64,
    pub units: u64,
    pub nontrivial: HashSet<u64>,
    pub nontrivial_total: u64,
    /// Non-trivial cases counted by exhaustive enumerations (distinct by construction).
    pub distinct_counted: u64,
    pub labels: BTreeMap<&'static str, u64>,
    pub excluded: BTreeMap<String, u64>,
    pub samples_by_label: BTreeMap<&'static str, Vec<String>>,
    pub samples: Vec<String>,
}

impl Stats {
    pub fn record(&mut self, case: &Case) {
        self.cases += 1;
        self.units += case.units.max(1);
        if let Some(why) = &case.excluded {
            *self.excluded.entry(why.clone()).or_default() += 1;
        }
        for l in &case.labels {
            *self.labels.entry(l).or_default() += 1;
            let v = self.samples_by_label.entry(l).or_default();
            if v.len() < 2 && !case.key.is_empty() {
                v.push(case.key.clone());
            }
        }
        if case.nontrivial {
            self.nontrivial_total += 1;
            let mut h = std::collections::hash_map::DefaultHasher::new();
            case.key.hash(&mut h);
            self.nontrivial.insert(h.finish());
            if self.samples.len() < 4 {
                self.samples.push(case.key.clone());
            }
        }
    }

    /// Number of distinct non-trivial cases.
    pub fn distinct(&self) -> u64 {
        self.nontrivial.len() as u64 + self.distinct_counted
    }

    pub fn merge(&mut self, other: Stats) {
        self.cases += other.cases;
        self.units += other.units;
        self.nontrivial_total += other.nontrivial_total;
        self.distinct_counted += other.distinct_counted;
        self.nontrivial.extend(other.nontrivial);
        for (k, v) in other.labels {
            *self.labels.entry(k).or_default() += v;
        }
        for (k, v) in other.excluded {
            *self.excluded.entry(k).or_default() += v;
        }
        for (k, v) in other.samples_by_label {
            let e = self.samples_by_label.entry(k).or_default();
            for s in v {
                if e.len() < 2 {
                    e.push(s);
                }
            }
        }
        for s in other.samples {
            if self.samples.len() < 8 {
                self.samples.push(s);
            }
        }
    }
}

pub struct SubOutcome {
    pub name: &'static str,
    pub rule: &'static str,
    pub stats: Stats,
    pub failures: Vec<Failure>,
    pub wall_s: f64,
    pub exhaustive: bool,
}

// ---- panic capture -------------------------------------------------------------------------

thread_local! {
    static LAST_PANIC: RefCell<Option<String>> = const { RefCell::new(None) };
}

/// A `log` sink that accepts every level and formats every record (into a scratch buffer), the way a
/// process with logging switched on does (`RUST_LOG=trace`, or the Python binding, which installs
/// `pyo3_log`): the arguments of the library's `log::warn!` calls are evaluated, so a panic while
/// building a log message is a panic of the call that logs (S-C04-g).
struct FormattingSink;

impl log::Log for FormattingSink {
    fn enabled(&self, _: &log::Metadata) -> bool {
        true
    }

    fn log(&self, record: &log::Record) {
        use std::fmt::Write;
        let mut buf = String::new();
        let _ = write!(buf, "{}", record.args());
        std::hint::black_box(&buf);
    }

    fn flush(&self) {}
}

pub fn install_panic_hook() {
    static SINK: FormattingSink = FormattingSink;
    if log::set_logger(&SINK).is_ok() {
        log::set_max_level(log::LevelFilter::Trace);
    }
    std::panic::set_hook(Box::new(|info| {
        let msg = if let Some(s) = info.payload().downcast_ref::<&str>() {
            (*s).to_string()
        } else if let Some(s) = info.payload().downcast_ref::<String>() {
            s.clone()
        } else {
            "<non-string panic payload>".to_string()
        };
        let loc = info
            .location()
            .map(|l| format!("{}:{}", l.file(), l.line()))
            .unwrap_or_default();
        LAST_PANIC.with(|p| *p.borrow_mut() = Some(format!("{msg} [{loc}]")));
    }));
}

/// Run library code; a panic is turned into `Err(message)`.
pub fn guard<T>(f: impl FnOnce() -> T) -> Result<T, String> {
    match catch_unwind(AssertUnwindSafe(f)) {
        Ok(v) => Ok(v),
        Err(_) => Err(LAST_PANIC
            .with(|p| p.borrow_mut().take())
            .unwrap_or_else(|| "<panic>".to_string())),
    }
}

/// Default cap on the number of day schedules one case may evaluate (hook H1). A case exceeding
/// it panics with the hook's marker, which `exec` reports as a failure of the check (checks that
/// legitimately need more set their own limit).
pub const DEFAULT_WORK_LIMIT: u64 = 40_000_000;

/// Execute one case: fresh hook state, panics of harness or library are caught.
pub fn exec(f: CheckFn, choices: &[u16], case: &mut Case) -> Result<(), String> {
    opening_hours::verif_hooks::reset();
    opening_hours::verif_hooks::set_limit(Some(DEFAULT_WORK_LIMIT));
    let mut ch = Choices::new(choices);
    let r = match guard(|| f(&mut ch, case)) {
        Ok(r) => r,
        Err(p) => Err(format!("panic: {p}")),
    };
    // measured, not assumed: a generator reading past the end of its choice sequence only gets
    // zeros (simplest alternatives), so later draws (probe dates, instants) lose their variety
    if ch.exhausted() {
        case.label("choice_sequence_exhausted");
    }
    USED_HIST.with(|h| {
        let mut h = h.borrow_mut();
        let b = (ch.used() / 20).min(199);
        h[b] += 1;
    });
    r
}

thread_local! {
    /// Histogram (buckets of 20) of the number of choices consumed per case on this thread.
    pub static USED_HIST: RefCell<[u64; 200]> = const { RefCell::new([0; 200]) };
}

pub fn exec_text(f: TextFn, text: &str, case: &mut Case) -> Result<(), String> {
    opening_hours::verif_hooks::reset();
    opening_hours::verif_hooks::set_limit(Some(DEFAULT_WORK_LIMIT));
    match guard(|| f(text, case)) {
        Ok(r) => r,
        Err(p) => Err(format!("panic: {p}")),
    }
}

// ---- sharded proptest driver ---------------------------------------------------------------

pub fn shards_for(tier: Tier) -> u64 {
    let n = std::thread::available_parallelism().map(|n| n.get()).unwrap_or(4) as u64;
    match tier {
        Tier::Quick => n.min(16),
        Tier::Thorough => n.min(16),
    }
}

pub fn run_sub(sub: &SubCheck, tier: Tier, seed: u64) -> SubOutcome {
    let total = match tier {
        Tier::Quick => sub.cases_quick,
        Tier::Thorough => sub.cases_thorough,
    };
    // The number of shards is fixed (not the machine's core count) so that a run is a pure
    // function of code, tier and seed.
    let shards = 64u64;
    let per_shard = total.div_ceil(shards).max(1);
    let stop = AtomicBool::new(false);
    let merged = Mutex::new((Stats::default(), Vec::<Failure>::new()));
    let start = Instant::now();
    let workers = shards_for(tier);
    let next_shard = std::sync::atomic::AtomicU64::new(0);

    std::thread::scope(|scope| {
        for _ in 0..workers {
            scope.spawn(|| loop {
                let shard = next_shard.fetch_add(1, Ordering::SeqCst);
                if shard >= shards {
                    break;
                }
                USED_HIST.with(|h| *h.borrow_mut() = [0; 200]);
                let (stats, failure) = run_shard(sub, per_shard, seed * 1000 + shard, &stop);
                if std::env::var_os("VERIF_DEBUG_CHOICES").is_some() {
                    let h = USED_HIST.with(|h| *h.borrow());
                    let mut g = HIST_TOTAL.lock().unwrap();
                    for i in 0..200 {
                        g[i] += h[i];
                    }
                }
                let mut m = merged.lock().unwrap();
                m.0.merge(stats);
                if let Some(f) = failure {
                    m.1.push(f);
                }
            });
        }
    });

    let (stats, failures) = merged.into_inner().unwrap();
    if std::env::var_os("VERIF_DEBUG_CHOICES").is_some() {
        let mut g = HIST_TOTAL.lock().unwrap();
        let n: u64 = g.iter().sum();
        let q = |p: f64| -> usize {
            let mut acc = 0;
            for (i, c) in g.iter().enumerate() {
                acc += c;
                if acc as f64 >= p * n as f64 {
                    return (i + 1) * 20;
                }
            }
            4000
        };
        eprintln!("CHOICES {} max_choices={} used: p50<={} p90<={} p99<={} p99.9<={}", sub.name, sub.max_choices, q(0.5), q(0.9), q(0.99), q(0.999));
        *g = [0; 200];
    }
    SubOutcome {
        name: sub.name,
        rule: sub.rule,
        stats,
        failures,
        wall_s: start.elapsed().as_secs_f64(),
        exhaustive: false,
    }
}

static HIST_TOTAL: Mutex<[u64; 200]> = Mutex::new([0; 200]);

fn run_shard(
    sub: &SubCheck,
    cases: u64,
    seed: u64,
    stop: &AtomicBool,
) -> (Stats, Option<Failure>) {
    let config = Config {
        cases: cases as u32,
        failure_persistence: None,
        rng_seed: RngSeed::Fixed(seed),
        max_shrink_iters: 6000,
        ..Config::default()
    };
    let mut runner = TestRunner::new(config);
    // Most sequences have the full length (`max_choices` is set above the measured 99.9th
    // percentile of what the generator consumes, so that late draws — probe dates, instants —
    // are not starved: reads past the end yield zeros); a sixth keep a uniformly drawn length,
    // which yields the small, early-truncated cases.
    // (VERIF_CHOICE_SCALE is a measurement aid for tuning `max_choices`, not used by any
    // registered command.)
    let scale: usize = std::env::var("VERIF_CHOICE_SCALE").ok().and_then(|s| s.parse().ok()).unwrap_or(1);
    let len = sub.max_choices * scale;
    let strategy = prop_oneof![
        5 => vec(any::<u16>(), len..=len),
        1 => vec(any::<u16>(), 0..len),
    ];
    let stats = RefCell::new(Stats::default());
    let failed = std::cell::Cell::new(false);

    // Shrinking re-runs the check on candidate simplifications; with an expensive check (a library
    // call walking thousands of days, a 25 MB calendar) six thousand candidates can take hours.
    // Minimisation therefore gets a budget of 60 s of wall clock per shard, after which every
    // further candidate is declined without being run: this bounds the *size of the replay*, never
    // the verdict (the failure already stands, and is re-executed on the final input below).
    let shrink_deadline: std::cell::Cell<Option<Instant>> = std::cell::Cell::new(None);
    let result = runner.run(&strategy, |v| {
        if !failed.get() && stop.load(Ordering::Relaxed) {
            return Ok(());
        }
        if failed.get() && shrink_deadline.get().is_some_and(|d| Instant::now() > d) {
            return Ok(());
        }
        let mut case = Case::default();
        let r = exec(sub.f, &v, &mut case);
        if !failed.get() {
            // Statistics stop at the first failure (the closure is re-run while shrinking).
            match &r {
                Ok(()) => stats.borrow_mut().record(&case),
                Err(_) => {
                    failed.set(true);
                    shrink_deadline.set(Some(Instant::now() + std::time::Duration::from_secs(60)));
                    stop.store(true, Ordering::Relaxed);
                }
            }
        }
        r.map_err(TestCaseError::fail)
    });

    let failure = match result {
        Ok(()) => None,
        Err(TestError::Fail(_, value)) => {
            let choices = trim(&value);
            let mut case = Case::default();
            let message = match exec(sub.f, &choices, &mut case) {
                Err(m) => m,
                Ok(()) => "failure did not reproduce on the minimised input (flaky check?)".to_string(),
            };
            Some(Failure {
                sub: sub.name.to_string(),
                choices,
                text: None,
                key: case.key,
                message,
            })
        }
        Err(TestError::Abort(reason)) => Some(Failure {
            sub: sub.name.to_string(),
            choices: Vec::new(),
            text: None,
            key: String::new(),
            message: format!("HARNESS-ABORT: {reason}"),
        }),
    };

    (stats.into_inner(), failure)
}
