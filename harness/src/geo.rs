//! Places where the library's coordinate lookups (country, time zone) change their answer, found with the library's
//! own lookups: pairs of points a few metres apart on either side of a zone / country border, and junctions where a
//! point of no supported country has two or more countries within a kilometre. Used by C18 `lookup_histories`
//! (the answer for a point may not depend on what was looked up before) — never as an oracle for *which* zone or
//! country a point belongs to.

use std::collections::BTreeSet;
use std::sync::OnceLock;

use opening_hours::localization::{Coordinates, Country, TzLocation};

/// (latitude, longitude)
pub type P = (f64, f64);

pub fn coords(p: P) -> Coordinates {
    Coordinates::new(p.0, p.1).expect("grid point inside the valid range")
}

pub fn tz_of(p: P) -> &'static str {
    TzLocation::from_coords(coords(p)).get_timezone().name()
}

pub fn country_of(p: P) -> Option<&'static str> {
    Country::try_from_coords(coords(p)).map(|c| c.iso_code())
}

/// Every probe of the discovery is preceded by a lookup somewhere else, so that consecutive probes a few metres apart
/// are never consecutive lookups (a library that remembers its last answer must not steer the bisection).
fn elsewhere(counter: &mut u32) {
    *counter = counter.wrapping_add(1);
    let p = (-50.0 + f64::from(*counter % 97), -170.0 + f64::from(*counter % 331));
    std::hint::black_box((tz_of(p), country_of(p)));
}

pub struct Junction {
    /// points of the final cell that lie in no supported country
    pub none_points: Vec<P>,
    pub countries: Vec<&'static str>,
}

pub struct Geo {
    pub zone_pairs: Vec<(P, P)>,
    pub country_pairs: Vec<(P, P)>,
    pub junctions: Vec<Junction>,
    pub lookups: u64,
}

fn bisect<K: PartialEq>(mut p: P, mut q: P, key: impl Fn(P) -> K, counter: &mut u32, lookups: &mut u64) -> Option<(P, P)> {
    elsewhere(counter);
    let kp = key(p);
    for _ in 0..40 {
        if (p.0 - q.0).abs() + (p.1 - q.1).abs() < 3e-4 {
            break;
        }
        let m = ((p.0 + q.0) / 2.0, (p.1 + q.1) / 2.0);
        elsewhere(counter);
        *lookups += 1;
        if key(m) == kp {
            p = m;
        } else {
            q = m;
        }
    }
    elsewhere(counter);
    let a = key(p);
    elsewhere(counter);
    let b = key(q);
    (a != b).then_some((p, q))
}

fn build() -> Geo {
    let mut counter = 0u32;
    let mut lookups = 0u64;
    // 1. coarse grid, 1 degree, populated latitudes
    let (lat0, lat1, lon0, lon1) = (-56i32, 72i32, -180i32, 179i32);
    let w = (lon1 - lon0 + 1) as usize;
    let h = (lat1 - lat0 + 1) as usize;
    let at = |i: usize, j: usize| -> P { (f64::from(lat0 + i as i32), f64::from(lon0 + j as i32)) };
    let mut tz = Vec::with_capacity(w * h);
    let mut co = Vec::with_capacity(w * h);
    for i in 0..h {
        for j in 0..w {
            tz.push(tz_of(at(i, j)));
            co.push(country_of(at(i, j)));
            lookups += 2;
        }
    }
    // 2. neighbours with different answers, thinned deterministically, bisected
    let mut zone_cand = Vec::new();
    let mut country_cand = Vec::new();
    for i in 0..h {
        for j in 0..w {
            for (di, dj) in [(0usize, 1usize), (1, 0)] {
                let (i2, j2) = (i + di, j + dj);
                if i2 >= h || j2 >= w {
                    continue;
                }
                if tz[i * w + j] != tz[i2 * w + j2] && !(tz[i * w + j].starts_with("Etc/") && tz[i2 * w + j2].starts_with("Etc/")) {
                    zone_cand.push((at(i, j), at(i2, j2)));
                }
                if co[i * w + j] != co[i2 * w + j2] {
                    country_cand.push((at(i, j), at(i2, j2)));
                }
            }
        }
    }
    let thin = |v: Vec<(P, P)>, n: usize| -> Vec<(P, P)> {
        let step = (v.len() / n).max(1);
        v.into_iter().step_by(step).take(n).collect()
    };
    let zone_pairs: Vec<(P, P)> = thin(zone_cand, 260).into_iter().filter_map(|(p, q)| bisect(p, q, tz_of, &mut counter, &mut lookups)).collect();
    let country_pairs: Vec<(P, P)> = thin(country_cand, 200).into_iter().filter_map(|(p, q)| bisect(p, q, country_of, &mut counter, &mut lookups)).collect();
    // 3. junctions: quadtree descent from half-degree cells, keeping cells whose 3 x 3 sample shows three or more
    //    different answers, down to cells of about 0.004 degree
    let mut junctions = Vec::new();
    let mut stack: Vec<(P, f64)> = Vec::new(); // south-west corner, size
    for i in 0..(h - 1) * 2 {
        for j in 0..(w - 1) * 2 {
            // only where the coarse grid shows land of a supported country nearby
            let (ci, cj) = (i / 2, j / 2);
            let near: BTreeSet<Option<&str>> = [(ci, cj), (ci + 1, cj), (ci, cj + 1), (ci + 1, cj + 1)].iter().map(|(a, b)| co[a * w + b]).collect();
            if near.len() >= 2 || (near.len() == 1 && near.iter().next().unwrap().is_some()) {
                stack.push(((f64::from(lat0) + i as f64 * 0.5, f64::from(lon0) + j as f64 * 0.5), 0.5));
            }
        }
    }
    let mut budget = 600_000u64;
    while let Some((sw, size)) = stack.pop() {
        if budget == 0 || junctions.len() >= 150 {
            break;
        }
        let mut sample = Vec::with_capacity(9);
        for a in 0..3 {
            for b in 0..3 {
                let p = (sw.0 + size * f64::from(a) / 2.0, sw.1 + size * f64::from(b) / 2.0);
                if size < 0.02 {
                    elsewhere(&mut counter);
                }
                sample.push((p, country_of(p)));
                lookups += 1;
                budget = budget.saturating_sub(1);
            }
        }
        let distinct: BTreeSet<Option<&str>> = sample.iter().map(|s| s.1).collect();
        if distinct.len() < 3 {
            continue;
        }
        if size <= 0.004 {
            if distinct.contains(&None) {
                junctions.push(Junction {
                    none_points: sample.iter().filter(|s| s.1.is_none()).map(|s| s.0).collect(),
                    countries: distinct.iter().flatten().copied().collect(),
                });
            }
            continue;
        }
        let half = size / 2.0;
        for (a, b) in [(0.0, 0.0), (0.0, half), (half, 0.0), (half, half)] {
            stack.push(((sw.0 + a, sw.1 + b), half));
        }
    }
    Geo { zone_pairs, country_pairs, junctions, lookups }
}

pub fn geo() -> &'static Geo {
    static GEO: OnceLock<Geo> = OnceLock::new();
    GEO.get_or_init(build)
}
