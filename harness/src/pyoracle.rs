//! `ohv py-oracle`: JSON-lines server answering what the Rust core returns for the context that
//! the Python constructor arguments *document* (C12). It contains no code of the binding layer.

use std::io::{BufRead, Write};

use chrono::{DateTime, LocalResult, NaiveDateTime, TimeZone};
use chrono_tz::Tz;
use opening_hours::localization::{Coordinates, Country, Localize, TzLocation};
use opening_hours::{Context, ContextHolidays, OpeningHours, DATE_END};
use opening_hours_syntax::rules::RuleKind;
use serde_json::{json, Value};

use crate::runner::guard;

#[derive(Clone)]
enum InTime {
    Naive(NaiveDateTime),
    Aware(DateTime<Tz>),
}

fn parse_naive(s: &str) -> Option<NaiveDateTime> {
    NaiveDateTime::parse_from_str(s, "%Y-%m-%dT%H:%M:%S%.f")
        .or_else(|_| NaiveDateTime::parse_from_str(s, "%Y-%m-%dT%H:%M:%S"))
        .ok()
}

/// Err(reason) = the input itself has no core equivalent (legal for the binding to reject).
fn parse_time(v: &Value) -> Result<Option<InTime>, String> {
    if v.is_null() {
        return Ok(None);
    }
    let naive = parse_naive(v["naive"].as_str().unwrap_or("")).ok_or("unparsable datetime")?;
    match v["tz"].as_str() {
        None => Ok(Some(InTime::Naive(naive))),
        Some(key) => {
            let tz: Tz = key.parse().map_err(|_| format!("input zone {key} unknown to chrono-tz"))?;
            let fold = v["fold"].as_u64().unwrap_or(0);
            match tz.from_local_datetime(&naive) {
                LocalResult::Single(dt) => Ok(Some(InTime::Aware(dt))),
                LocalResult::Ambiguous(a, b) => Ok(Some(InTime::Aware(if fold == 1 { b } else { a }))),
                LocalResult::None => Err("aware input does not exist in its zone (gap)".into()),
            }
        }
    }
}

fn fmt_naive(n: NaiveDateTime) -> String {
    n.format("%Y-%m-%dT%H:%M:%S%.6f").to_string()
}

fn out_aware(dt: DateTime<Tz>) -> Value {
    let naive = dt.naive_local();
    let fold = match dt.timezone().from_local_datetime(&naive) {
        LocalResult::Ambiguous(_, b) => u8::from(dt == b),
        _ => 0,
    };
    json!({"naive": fmt_naive(naive), "tz": dt.timezone().name(), "fold": fold})
}

fn out_naive(n: NaiveDateTime) -> Value {
    json!({"naive": fmt_naive(n), "tz": Value::Null, "fold": 0})
}

fn kind_str(k: RuleKind) -> &'static str {
    match k {
        RuleKind::Open => "open",
        RuleKind::Closed => "closed",
        RuleKind::Unknown => "unknown",
    }
}

enum Locale {
    Naive,
    Tz(TzLocation<Tz>),
}

struct Built {
    expr: OpeningHours,
    holidays: ContextHolidays,
    locale: Locale,
}

/// The documented meaning of the constructor arguments.
fn construct(req: &Value) -> Result<Built, &'static str> {
    let coords = match req["coords"].as_array() {
        Some(a) => {
            let lat = a.first().and_then(Value::as_f64).unwrap_or(f64::NAN);
            let lon = a.get(1).and_then(Value::as_f64).unwrap_or(f64::NAN);
            Some(Coordinates::new(lat, lon).ok_or("InvalidCoordinatesError")?)
        }
        None => None,
    };
    let expr = OpeningHours::parse(req["expr"].as_str().unwrap_or("")).map_err(|_| "ParserError")?;
    let auto_country = req["auto_country"].as_bool().unwrap_or(true);
    let auto_timezone = req["auto_timezone"].as_bool().unwrap_or(true);
    let holidays = match req["country"].as_str() {
        Some(code) => code.parse::<Country>().map_err(|_| "UnknownCountryError")?.holidays(),
        None => match coords {
            Some(c) if auto_country => Country::try_from_coords(c).map(Country::holidays).unwrap_or_default(),
            _ => ContextHolidays::default(),
        },
    };
    let tz: Option<Tz> = match req["timezone"].as_str() {
        Some(key) => Some(key.parse().map_err(|_| "UnknownZone")?),
        None => None,
    };
    let locale = match (tz, coords) {
        // a time zone, with accurate sun events when coordinates are given as well
        (Some(tz), None) => Locale::Tz(TzLocation::new(tz)),
        (Some(tz), Some(c)) => Locale::Tz(TzLocation::new(tz).with_coords(c)),
        // the zone is inferred from the coordinates unless auto_timezone is off
        (None, Some(c)) if auto_timezone => Locale::Tz(TzLocation::from_coords(c)),
        _ => Locale::Naive,
    };
    Ok(Built { expr, holidays, locale })
}

fn end_or_null<T>(naive_end: NaiveDateTime, v: T) -> Option<T> {
    if naive_end >= DATE_END {
        None
    } else {
        Some(v)
    }
}

fn answer(req: &Value) -> Value {
    let op = req["op"].as_str().unwrap_or("");
    if op == "validate" {
        return json!({"result": OpeningHours::parse(req["expr"].as_str().unwrap_or("")).is_ok()});
    }
    let built = match construct(req) {
        Ok(b) => b,
        Err(e) => return json!({"error": e}),
    };
    match op {
        "construct" => return json!({"result": "ok"}),
        "str" => return json!({"result": built.expr.to_string()}),
        "normalize" => return json!({"result": built.expr.normalize().to_string()}),
        _ => {}
    }
    let time = match parse_time(&req["time"]) {
        Ok(Some(t)) => t,
        Ok(None) => return json!({"skip": "no time given (the binding would use the wall clock)"}),
        Err(e) => return json!({"skip": e}),
    };
    let end = match parse_time(&req["end"]) {
        Ok(e) => e,
        Err(e) => return json!({"skip": e}),
    };
    let in_tz = |t: &InTime| match t {
        InTime::Naive(_) => None,
        InTime::Aware(dt) => Some(dt.timezone()),
    };
    match built.locale {
        Locale::Naive => {
            let oh = built.expr.with_context(Context::default().with_holidays(built.holidays));
            let wall = |t: &InTime| match t {
                InTime::Naive(n) => *n,
                InTime::Aware(dt) => dt.naive_local(),
            };
            // results carry the zone of the input when it has one
            let prefer = in_tz(&time).or_else(|| end.as_ref().and_then(in_tz));
            let out = |n: NaiveDateTime| match prefer {
                Some(tz) => out_aware(TzLocation::new(tz).datetime(n)),
                None => out_naive(n),
            };
            match op {
                "state" => json!({"result": kind_str(oh.state(wall(&time)))}),
                "next_change" => json!({"result": oh.next_change(wall(&time)).map(out)}),
                "intervals" => {
                    let items: Vec<Value> = match &end {
                        Some(e) => oh.iter_range(wall(&time), wall(e)).take(40).map(|i| json!([out(i.range.start), end_or_null(i.range.end, out(i.range.end)), kind_str(i.kind), i.comments.iter().map(|c| c.to_string()).collect::<Vec<_>>()])).collect(),
                        None => oh.iter_from(wall(&time)).take(40).map(|i| json!([out(i.range.start), end_or_null(i.range.end, out(i.range.end)), kind_str(i.kind), i.comments.iter().map(|c| c.to_string()).collect::<Vec<_>>()])).collect(),
                    };
                    json!({"result": items})
                }
                _ => json!({"skip": "unknown op"}),
            }
        }
        Locale::Tz(loc) => {
            let tz = *loc.get_timezone();
            let oh = built.expr.with_context(Context::default().with_holidays(built.holidays).with_locale(loc));
            // a naive input is wall-clock time of the context zone
            let instant = |t: &InTime| -> Result<DateTime<Tz>, String> {
                match t {
                    InTime::Aware(dt) => Ok(*dt),
                    InTime::Naive(n) => match tz.from_local_datetime(n) {
                        LocalResult::Single(dt) => Ok(dt),
                        LocalResult::Ambiguous(a, _) => Ok(a),
                        LocalResult::None => Err("naive input does not exist in the context zone (gap)".to_string()),
                    },
                }
            };
            let t0 = match instant(&time) {
                Ok(t) => t,
                Err(e) => return json!({"skip": e}),
            };
            let wall_end = |dt: &DateTime<Tz>| dt.with_timezone(&tz).naive_local();
            match op {
                "state" => json!({"result": kind_str(oh.state(t0))}),
                "next_change" => json!({"result": oh.next_change(t0).map(|d| out_aware(d.with_timezone(&tz)))}),
                "intervals" => {
                    let item = |i: opening_hours::DateTimeRange<DateTime<Tz>>| json!([out_aware(i.range.start), end_or_null(wall_end(&i.range.end), out_aware(i.range.end)), kind_str(i.kind), i.comments.iter().map(|c| c.to_string()).collect::<Vec<_>>()]);
                    let items: Vec<Value> = match &end {
                        Some(e) => match instant(e) {
                            Ok(e) => oh.iter_range(t0, e).take(40).map(item).collect(),
                            Err(e) => return json!({"skip": e}),
                        },
                        None => oh.iter_from(t0).take(40).map(item).collect(),
                    };
                    json!({"result": items})
                }
                _ => json!({"skip": "unknown op"}),
            }
        }
    }
}

/// Pairs of points a few metres apart on both sides of a border between two countries or time
/// zones as the library sees them: bisection between two towns known to lie on either side.
fn borders() -> Value {
    const TOWNS: [((f64, f64), (f64, f64)); 18] = [
        ((48.5734, 7.7521), (48.5730, 7.8150)),     // Strasbourg / Kehl
        ((46.2044, 6.1432), (46.1934, 6.2360)),     // Geneva / Annemasse
        ((42.3314, -83.0458), (42.3149, -83.0364)), // Detroit / Windsor
        ((32.7157, -117.1611), (32.5149, -117.0382)), // San Diego / Tijuana
        ((65.8355, 24.1368), (65.8481, 24.1466)),   // Haparanda / Tornio
        ((47.5596, 7.5886), (47.5934, 7.6208)),     // Basel / Weil am Rhein
        ((45.9411, 13.6220), (45.9558, 13.6432)),   // Gorizia / Nova Gorica
        ((52.3471, 14.5506), (52.3510, 14.5600)),   // Frankfurt (Oder) / Slubice
        ((31.7619, -106.4850), (31.6904, -106.4245)), // El Paso / Ciudad Juarez
        ((43.0962, -79.0377), (43.0896, -79.0849)), // Niagara Falls NY / ON
        ((55.6761, 12.5683), (55.6050, 13.0038)),   // Copenhagen / Malmo
        ((48.2082, 16.3738), (48.1486, 17.1077)),   // Vienna / Bratislava
        ((50.6292, 3.0573), (50.8280, 3.2649)),     // Lille / Kortrijk
        ((42.0282, -8.6450), (42.0470, -8.6440)),   // Valenca / Tui
        ((54.9966, -7.3086), (54.8320, -7.4830)),   // Derry / Lifford
        ((1.3521, 103.8198), (1.4927, 103.7414)),   // Singapore / Johor Bahru
        ((22.3193, 114.1694), (22.5431, 114.0579)), // Hong Kong / Shenzhen
        ((49.6116, 6.1319), (49.7557, 6.6394)),     // Luxembourg / Trier
    ];
    let key = |p: (f64, f64)| -> String {
        let c = Coordinates::new(p.0, p.1).unwrap();
        format!("{:?}/{}", Country::try_from_coords(c).map(|c| c.iso_code()), TzLocation::from_coords(c).get_timezone().name())
    };
    let mut out = Vec::new();
    for (a, b) in TOWNS {
        let (ka, kb) = (key(a), key(b));
        if ka == kb {
            continue;
        }
        let (mut p, mut q) = (a, b);
        // invariant: key(p) == ka, key(q) != ka
        for _ in 0..40 {
            if (p.0 - q.0).abs() + (p.1 - q.1).abs() < 2e-4 {
                break;
            }
            let m = ((p.0 + q.0) / 2.0, (p.1 + q.1) / 2.0);
            if key(m) == ka {
                p = m;
            } else {
                q = m;
            }
        }
        out.push(json!({"a": [p.0, p.1], "b": [q.0, q.1], "key_a": ka, "key_b": key(q)}));
    }
    json!({"result": out})
}

pub fn serve() {
    crate::runner::install_panic_hook();
    let stdin = std::io::stdin();
    let stdout = std::io::stdout();
    for line in stdin.lock().lines() {
        let Ok(line) = line else { break };
        if line.trim().is_empty() {
            continue;
        }
        let req: Value = serde_json::from_str(&line).unwrap_or(Value::Null);
        let mut resp = if req["op"] == "zones" {
            json!({"result": chrono_tz::TZ_VARIANTS.iter().map(|z| z.name()).collect::<Vec<_>>()})
        } else if req["op"] == "borders" {
            borders()
        } else if req["op"] == "countries" {
            json!({"result": Country::ALL.iter().map(|c| c.iso_code()).collect::<Vec<_>>()})
        } else {
            opening_hours::verif_hooks::reset();
            opening_hours::verif_hooks::set_limit(Some(400_000));
            match guard(|| answer(&req)) {
                Ok(v) => v,
                Err(p) if p.contains(opening_hours::verif_hooks::LIMIT_MARKER) => json!({"skip": "too_far: the core needs more than 400 000 day schedules"}),
                Err(p) => json!({"core_panic": p}),
            }
        };
        resp["id"] = req["id"].clone();
        let mut out = stdout.lock();
        let _ = writeln!(out, "{resp}");
        let _ = out.flush();
    }
}

/// `ohv gen-exprs <seed> <count>`: valid sentences from the generator, one per line.
pub fn gen_exprs(seed: u64, count: usize) {
    let mut state = seed.wrapping_mul(0x9E37_79B9_7F4A_7C15).wrapping_add(1);
    let mut next = move || {
        // splitmix64: the only consumer of this stream is the Python driver's pool of
        // expressions, which Hypothesis then samples from
        state = state.wrapping_add(0x9E37_79B9_7F4A_7C15);
        let mut z = state;
        z = (z ^ (z >> 30)).wrapping_mul(0xBF58_476D_1CE4_E5B9);
        z = (z ^ (z >> 27)).wrapping_mul(0x94D0_49BB_1331_11EB);
        z ^ (z >> 31)
    };
    let mut seen = std::collections::BTreeSet::new();
    while seen.len() < count {
        let choices: Vec<u16> = (0..220).map(|_| next() as u16).collect();
        let mut ch = crate::choice::Choices::new(&choices);
        let cfg = crate::gen::expr::Cfg {
            max_rules: 3,
            base_year: 2020,
            dense: next() % 2 == 0,
            ..Default::default()
        };
        let (_, text) = crate::gen::expr::gen_expr(&mut ch, &cfg);
        if !text.contains('\n') && seen.insert(text.clone()) {
            println!("{text}");
        }
    }
}
