//! Classification of generated expressions (reported as label histograms in the evidence).

use opening_hours_syntax::rules::day as ds;
use opening_hours_syntax::rules::time as ts;
use opening_hours_syntax::rules::{OpeningHoursExpression, RuleOperator};
use opening_hours_syntax::ExtendedTime;

use crate::runner::Case;

/// Number of selector kinds used by the expression and labels for every construct present.
pub fn label_expr(e: &OpeningHoursExpression, case: &mut Case) -> u32 {
    let mut kinds = [false; 5];
    if e.rules.len() > 16 {
        case.label("more_than_16_rules");
    }
    if e.rules.len() > 32 {
        case.label("more_than_32_rules");
    }
    if e.rules.len() > 100 {
        case.label("more_than_100_rules");
    }
    if e.rules.len() >= 2 && e.rules.iter().all(|r| r.time_selector.time.is_empty() && r.day_selector.weekday.is_empty()) {
        case.label("only_full_day_rules_without_weekdays");
    }
    let longest = e
        .rules
        .iter()
        .map(|r| {
            let s = &r.day_selector;
            r.time_selector.time.len().max(s.year.len()).max(s.monthday.len()).max(s.week.len()).max(s.weekday.len())
        })
        .max()
        .unwrap_or(0);
    if longest > 8 {
        case.label("selector_list_of_more_than_8_elements");
    }
    if longest > 32 {
        case.label("selector_list_of_more_than_32_elements");
    }
    for r in &e.rules {
        let s = &r.day_selector;
        if !s.year.is_empty() {
            kinds[0] = true;
            case.label("year");
            if s.year.iter().any(|y| y.step != 1) {
                case.label("year_step");
            }
            if s.year.iter().any(|y| y.range.start() > y.range.end()) {
                case.label("year_wrapping");
            }
        }
        if !s.monthday.is_empty() {
            kinds[1] = true;
            for md in &s.monthday {
                match md {
                    ds::MonthdayRange::Month { range, year } => {
                        case.label("month");
                        if year.is_some() {
                            case.label("month_with_year");
                        }
                        if range.start() > range.end() {
                            case.label("month_wrapping");
                        }
                    }
                    ds::MonthdayRange::Date { start, end } => {
                        case.label(if start == end { "single_date" } else { "date_range" });
                        if start.0.has_year() || end.0.has_year() {
                            case.label("dated");
                        }
                        if matches!(start.0, ds::Date::Easter { .. }) || matches!(end.0, ds::Date::Easter { .. }) {
                            case.label("easter");
                        }
                        if start.1 != ds::DateOffset::default() || end.1 != ds::DateOffset::default() {
                            case.label("date_offset");
                        }
                        if start != end && start.0.has_year() && !end.0.has_year() {
                            if let Some((s0, e0)) = crate::model::dated_interval(start, end) {
                                use chrono::Datelike;
                                if let Some(sy) = crate::model::date_year(&start.0) {
                                    if e0.year() >= sy + 2 || (e0 - s0).num_days() > 366 {
                                        case.label("dated_range_ending_two_years_later");
                                    }
                                }
                            }
                        }
                        for d in [&start.0, &end.0] {
                            if let ds::Date::Fixed { day, month, .. } = d {
                                if *day >= 29 && matches!(month, ds::Month::February) || *day == 31 {
                                    case.label("day_29_31");
                                }
                            }
                        }
                    }
                }
            }
        }
        if !s.week.is_empty() {
            kinds[2] = true;
            case.label("week");
            if s.week.iter().any(|w| w.step != 1) {
                case.label("week_step");
            }
            if s.week.iter().any(|w| w.range.start() > w.range.end()) {
                case.label("week_wrapping");
            }
            if s.week.iter().any(|w| w.range.end().0 == 53 || w.range.start().0 == 53) {
                case.label("week_53");
            }
        }
        if !s.weekday.is_empty() {
            kinds[3] = true;
            for wd in &s.weekday {
                match wd {
                    ds::WeekDayRange::Fixed { range, offset, nth_from_start, nth_from_end } => {
                        case.label("weekday");
                        if (*range.start() as u8) > (*range.end() as u8) {
                            case.label("weekday_wrapping");
                        }
                        if nth_from_start.contains(&false) || nth_from_end.contains(&false) {
                            case.label("nth");
                        }
                        if *offset != 0 {
                            case.label("weekday_offset");
                        }
                    }
                    ds::WeekDayRange::Holiday { offset, .. } => {
                        case.label("holiday");
                        if *offset != 0 {
                            case.label("holiday_offset");
                        }
                    }
                }
            }
        }
        if r.time_selector != ts::TimeSelector::default() {
            kinds[4] = true;
            case.label("time");
            for sp in &r.time_selector.time {
                if sp.open_end {
                    case.label("open_end");
                }
                if sp.repeats.is_some() {
                    case.label("repeat");
                }
                if matches!(sp.range.start, ts::Time::Variable(_)) || matches!(sp.range.end, ts::Time::Variable(_)) {
                    case.label("event");
                }
                if let (ts::Time::Fixed(a), ts::Time::Fixed(b)) = (&sp.range.start, &sp.range.end) {
                    if b <= a || *b > ExtendedTime::MIDNIGHT_24 {
                        case.label("span_past_midnight");
                    }
                }
            }
        }
        if !r.comments.is_empty() {
            case.label("comment");
        }
        match r.operator {
            RuleOperator::Additional => case.label("additional_rule"),
            RuleOperator::Fallback => case.label("fallback_rule"),
            RuleOperator::Normal => {}
        }
    }
    if e.rules.len() > 1 {
        case.label("multi_rule");
    }
    kinds.iter().filter(|k| **k).count() as u32
}
