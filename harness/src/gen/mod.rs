//! Generators shared by the checks (DESIGN.md section 1.3).

pub mod ctx;
pub mod dates;
pub mod expr;
pub mod labels;
