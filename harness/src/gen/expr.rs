//! Grammar-directed generator of opening-hours sentences *together with their denotation*.
//!
//! Every `gen_*` function draws from a `Choices` source, appends the text of the construct to
//! `out` (choosing one of the syntactic variants the grammar allows) and returns the value of the
//! library's public syntax-tree type that this text denotes. The tree is built directly from the
//! drawn values — never through the parser — so it can serve as the expected value for C05, and
//! the text can be fed to the parser for every other property.
//!
//! Only sentences of the supported grammar are produced (DESIGN.md appendix B); forms whose
//! denotation is ambiguous in the grammar itself are avoided by construction (each such place is
//! commented with `AMBIGUITY`).

use std::sync::Arc;

use chrono::Duration;
use opening_hours_syntax::rules::day::{
    Date, DateOffset, DaySelector, HolidayKind, Month, MonthdayRange, WeekDayOffset, WeekDayRange,
    WeekNum, WeekRange, Weekday, Year, YearRange,
};
use opening_hours_syntax::rules::time::{Time, TimeEvent, TimeSelector, TimeSpan, VariableTime};
use opening_hours_syntax::rules::{OpeningHoursExpression, RuleKind, RuleOperator, RuleSequence};
use opening_hours_syntax::ExtendedTime;

use crate::choice::Choices;

#[derive(Clone, Debug)]
pub struct Cfg {
    pub max_rules: u32,
    /// Years are mostly drawn from `base_year ..= base_year + 7`.
    pub base_year: i32,
    /// Tail of years reaching 1900 / 9999.
    pub wide_years: bool,
    /// Huge offsets / steps (C04 only).
    pub hostile: bool,
    /// Emit repeated spans (`10:00-12:00/30`).
    pub repeats: bool,
    /// Emit comments.
    pub comments: bool,
    /// Probability (%) that a rule carries a modifier comment.
    pub comment_pct: u32,
    /// Emit sun events.
    pub events: bool,
    /// Bias towards rules that interact (few selector kinds, same weekdays, overlapping spans).
    pub dense: bool,
    /// Largest day offset in "normal" mode.
    pub max_day_offset: i64,
    /// Percentage of expressions with many rules (12-67, bracketing 16 / 32 / 64): a sequence
    /// drawn from a pool of 1-4 generated rules, so that the choice budget stays small.
    pub long_pct: u32,
    /// Percentage of selector lists (time spans, weekday / week / year / month-day ranges of one rule) that are
    /// long: 4-65 elements (bracketing 8 / 16 / 32 / 64) repeating a motif of 1-4 generated elements.
    pub long_lists_pct: u32,
    /// Percentage of expressions made of *full-day* rules only (year / month / date / week selectors and modifiers, no
    /// weekday and no time selector): the rules on which the interval iterator jumps over many days at once.
    pub jumpable_pct: u32,
    /// (internal) the expression being generated is restricted to full-day rules
    pub jumpable: bool,
    /// Percentage of expressions of 2-6 rules drawn (with repetition, under varying operators)
    /// from a pool of 1-3 generated rules: the same rule twice in a row, `A, A; A`, `A; B; A`.
    pub repeat_pct: u32,
    /// Sentences of a *relaxed* grammar (no denotation is claimed): a space may separate the year
    /// selector from the month/date selector and the remedies for the ambiguous gluings are not
    /// applied. The real grammar rejects most of them; what it accepts must behave.
    pub relaxed: bool,
    /// Single dates (`Jan 5 +200 days`) may carry day offsets up to this value (0 = no more than
    /// `max_day_offset`): the date may then fall in the year after / before the one it is
    /// defined on.
    pub single_date_max_offset: i64,
    /// Percentage of rules restricted to the constructs the normaliser understands (plain
    /// weekday/month/week/year ranges without steps, fixed spans inside the day).
    pub canonical_pct: u32,
    /// (internal) the rule being generated is restricted to canonical constructs
    pub canonical: bool,
    /// Every rule gets a year selector made of bounded, non-wrapping ranges inside
    /// `base_year ..= base_year + 7` (C17: dates outside those years see no rule at all).
    pub force_bounded_year: bool,
}

impl Default for Cfg {
    fn default() -> Self {
        Cfg {
            max_rules: 4,
            base_year: 2020,
            wide_years: true,
            hostile: false,
            repeats: true,
            comments: true,
            comment_pct: 18,
            events: true,
            dense: false,
            max_day_offset: 10,
            long_pct: 0,
            long_lists_pct: 1,
            jumpable_pct: 0,
            jumpable: false,
            repeat_pct: 0,
            relaxed: false,
            single_date_max_offset: 0,
            canonical_pct: 0,
            canonical: false,
            force_bounded_year: false,
        }
    }
}

pub const WDAYS: [Weekday; 7] = [
    Weekday::Mon,
    Weekday::Tue,
    Weekday::Wed,
    Weekday::Thu,
    Weekday::Fri,
    Weekday::Sat,
    Weekday::Sun,
];

pub const MONTHS: [Month; 12] = [
    Month::January,
    Month::February,
    Month::March,
    Month::April,
    Month::May,
    Month::June,
    Month::July,
    Month::August,
    Month::September,
    Month::October,
    Month::November,
    Month::December,
];

pub fn wday_str(w: Weekday) -> &'static str {
    match w {
        Weekday::Mon => "Mo",
        Weekday::Tue => "Tu",
        Weekday::Wed => "We",
        Weekday::Thu => "Th",
        Weekday::Fri => "Fr",
        Weekday::Sat => "Sa",
        Weekday::Sun => "Su",
    }
}

pub fn month_str(m: Month) -> &'static str {
    ["Jan", "Feb", "Mar", "Apr", "May", "Jun", "Jul", "Aug", "Sep", "Oct", "Nov", "Dec"][m as usize - 1]
}

// ---- basic elements ------------------------------------------------------------------------

fn gen_year(ch: &mut Choices, cfg: &Cfg) -> u16 {
    let y = match ch.weighted(&[80, 10, if cfg.wide_years { 10 } else { 0 }]) {
        0 => cfg.base_year + ch.int(0, 7) as i32,
        1 => cfg.base_year + ch.int(-3, 12) as i32,
        _ => match ch.draw(6) {
            0 => 1900,
            1 => 9999,
            2 => 1901,
            3 => 9998,
            _ => ch.int(1900, 9999) as i32,
        },
    };
    y.clamp(1900, 9999) as u16
}

/// `N` of a step / offset, rendered with an optional leading zero.
fn write_number(ch: &mut Choices, out: &mut String, n: u64) {
    if ch.chance(4) {
        out.push('0');
    } else if ch.chance(1) {
        // zero-padded to lengths bracketing what the integer types hold in decimal (S-C05-o rejects tokens longer
        // than 20 characters): the grammar puts no limit on leading zeros
        let width = ch.pick(&[3usize, 5, 6, 10, 11, 19, 20, 21, 22, 39, 40, 64, 65, 255, 256, 300]);
        let digits = n.to_string();
        out.extend(std::iter::repeat('0').take(width.saturating_sub(digits.len())));
    }
    out.push_str(&n.to_string());
}

/// ` +N day(s)` — the leading space is mandatory.
fn gen_day_offset(ch: &mut Choices, cfg: &Cfg, out: &mut String) -> i64 {
    let n: i64 = if cfg.hostile && ch.chance(30) {
        match ch.draw(6) {
            0 => i64::MAX,
            1 => 999_999_999,
            2 => 3_000_000,
            3 => 100_000,
            4 => 366,
            _ => ch.int(1, 100_000_000),
        }
    } else {
        match ch.weighted(&[60, 30, 10]) {
            0 => 1,
            1 => ch.int(2, 3),
            _ => ch.int(4, cfg.max_day_offset.max(4)),
        }
    };
    let neg = ch.chance(45);
    out.push(' ');
    out.push(if neg { '-' } else { '+' });
    write_number(ch, out, n as u64);
    out.push_str(" day");
    // "day" and "days" are both accepted for any number
    if (n > 1) != ch.chance(8) {
        out.push('s');
    }
    if neg {
        -n
    } else {
        n
    }
}

// ---- time selector -------------------------------------------------------------------------

fn write_hhmm(ch: &mut Choices, out: &mut String, h: u32, m: u32) {
    if h < 10 && ch.chance(12) {
        out.push_str(&format!("{h}:{m:02}")); // relaxed single-digit hour
    } else {
        out.push_str(&format!("{h:02}:{m:02}"));
    }
}

fn gen_minutes(ch: &mut Choices) -> u32 {
    match ch.weighted(&[55, 25, 12, 8]) {
        0 => 0,
        1 => 30,
        2 => ch.pick(&[15, 45]),
        _ => ch.draw(60),
    }
}

fn gen_event(ch: &mut Choices, out: &mut String) -> VariableTime {
    let (event, name) = ch.pick(&[
        (TimeEvent::Sunrise, "sunrise"),
        (TimeEvent::Sunset, "sunset"),
        (TimeEvent::Dawn, "dawn"),
        (TimeEvent::Dusk, "dusk"),
    ]);
    if ch.chance(45) {
        let neg = ch.chance(50);
        let (h, m) = match ch.weighted(&[70, 20, 10]) {
            0 => (ch.draw(3), ch.pick(&[30u32, 0, 15, 45])),
            1 => (ch.draw(6), ch.draw(60)),
            _ => (ch.draw(24), ch.draw(60)),
        };
        out.push('(');
        out.push_str(name);
        out.push(if neg { '-' } else { '+' });
        out.push_str(&format!("{h:02}:{m:02}"));
        out.push(')');
        let mins = (h * 60 + m) as i16;
        VariableTime { event, offset: if neg { -mins } else { mins } }
    } else {
        out.push_str(name);
        VariableTime { event, offset: 0 }
    }
}

/// Start of a span: `hh:mm` up to 24:00, or an event.
fn gen_time_start(ch: &mut Choices, cfg: &Cfg, out: &mut String) -> Time {
    if cfg.events && ch.chance(10) {
        return Time::Variable(gen_event(ch, out));
    }
    let h = match ch.weighted(&[70, 22, 5, 3]) {
        0 => 6 + ch.draw(15),
        1 => ch.draw(24),
        2 => 0,
        _ => 24,
    };
    let m = if h == 24 { 0 } else { gen_minutes(ch) };
    if h == 24 {
        out.push_str("24:00");
    } else {
        write_hhmm(ch, out, h, m);
    }
    Time::Fixed(ExtendedTime::new(h as u8, m as u8).unwrap())
}

/// End of a span: `hh:mm` up to 48:00, or an event.
fn gen_time_end(ch: &mut Choices, cfg: &Cfg, out: &mut String, start: &Time) -> Time {
    if cfg.events && ch.chance(10) {
        return Time::Variable(gen_event(ch, out));
    }
    let start_h = match start {
        Time::Fixed(t) => u32::from(t.hour()),
        Time::Variable(_) => 12,
    };
    let h = match ch.weighted(&[55, 15, 12, 10, 4, 4]) {
        0 => (start_h + 1 + ch.draw(8)).min(24),    // later the same day
        1 => ch.draw(start_h.max(1)),               // before the start: wraps past midnight
        2 => 24 + ch.draw(24),                      // extended time
        3 => ch.draw(25),
        4 => 48,
        _ => start_h,                               // same hour (maybe equal bounds)
    };
    let m = if h == 48 { 0 } else { gen_minutes(ch) };
    write_hhmm(ch, out, h, m);
    Time::Fixed(ExtendedTime::new(h as u8, m as u8).unwrap())
}

fn gen_timespan_canonical(ch: &mut Choices, out: &mut String) -> TimeSpan {
    let (a, b) = match ch.weighted(&[60, 25, 15]) {
        0 => {
            let a = 60 * ch.draw(24);
            (a, (a + 60 * (1 + ch.draw(10))).min(1440))
        }
        1 => {
            let a = 15 * ch.draw(95);
            (a, (a + 15 * (1 + ch.draw(40))).min(1440))
        }
        _ => (0, 1440),
    };
    write_hhmm(ch, out, a / 60, a % 60);
    out.push('-');
    write_hhmm(ch, out, b / 60, b % 60);
    TimeSpan::fixed_range(
        ExtendedTime::from_mins_from_midnight(a as u16).unwrap(),
        ExtendedTime::from_mins_from_midnight(b as u16).unwrap(),
    )
}

fn gen_timespan(ch: &mut Choices, cfg: &Cfg, out: &mut String) -> TimeSpan {
    if cfg.canonical {
        return gen_timespan_canonical(ch, out);
    }
    // the whole day, spelled out (printers and normalisers treat it specially)
    if ch.chance(4) {
        out.push_str(if ch.chance(80) { "00:00-24:00" } else { "0:00-24:00" });
        return TimeSpan::fixed_range(ExtendedTime::MIDNIGHT_00, ExtendedTime::MIDNIGHT_24);
    }
    let start = gen_time_start(ch, cfg, out);
    // `10:00+`
    if ch.chance(5) {
        out.push('+');
        return TimeSpan {
            range: start..Time::Fixed(ExtendedTime::MIDNIGHT_24),
            open_end: true,
            repeats: None,
        };
    }
    let repeat = cfg.repeats && ch.chance(4);
    // spaces around "-" are a documented relaxation; with a repeat only the left one is allowed
    match ch.weighted(&[85, 5, 5, 5]) {
        0 => out.push('-'),
        1 if !repeat => out.push_str(" - "),
        2 => out.push_str(" -"),
        3 if !repeat => out.push_str("- "),
        _ => out.push('-'),
    }
    let end = gen_time_end(ch, cfg, out, &start);
    if repeat {
        out.push('/');
        let repeats = if ch.chance(50) {
            let m = ch.pick(&[30u32, 15, 5, 45, 59, 1]);
            out.push_str(&format!("{m:02}"));
            Duration::minutes(m.into())
        } else {
            let h = ch.pick(&[1u32, 2, 0, 12, 23]);
            let m = if h == 0 { 30 } else { ch.pick(&[0u32, 30, 15]) };
            out.push_str(&format!("{h:02}:{m:02}"));
            Duration::minutes((h * 60 + m).into())
        };
        return TimeSpan { range: start..end, open_end: false, repeats: Some(repeats) };
    }
    let open_end = ch.chance(5);
    if open_end {
        out.push('+');
    }
    TimeSpan { range: start..end, open_end, repeats: None }
}

/// A comma-separated selector list of `n` generated elements — or, for `long_lists_pct` % of the lists, of 4-65
/// elements repeating a motif of 1-4 generated ones (thresholds on the length of a list, at a small choice cost).
fn gen_list<T: Clone>(ch: &mut Choices, cfg: &Cfg, out: &mut String, n: u32, mut f: impl FnMut(&mut Choices, &mut String) -> T) -> Vec<T> {
    let (total, distinct) = if n > 0 && cfg.long_lists_pct > 0 && ch.chance(cfg.long_lists_pct) {
        (ch.pick(&[4u32, 5, 7, 8, 9, 15, 16, 17, 31, 32, 33, 63, 64, 65]), 1 + ch.draw(4))
    } else {
        (n, n)
    };
    let motif: Vec<(T, String)> = (0..distinct.min(total))
        .map(|_| {
            let mut text = String::new();
            let v = f(ch, &mut text);
            (v, text)
        })
        .collect();
    let mut res = Vec::with_capacity(total as usize);
    for i in 0..total as usize {
        if i > 0 {
            out.push(',');
        }
        let (v, text) = &motif[i % motif.len()];
        out.push_str(text);
        res.push(v.clone());
    }
    res
}

fn gen_time_selector(ch: &mut Choices, cfg: &Cfg, out: &mut String) -> TimeSelector {
    let n = 1 + ch.weighted(&[70, 22, 8]) as u32;
    TimeSelector { time: gen_list(ch, cfg, out, n, |ch, out| gen_timespan(ch, cfg, out)) }
}

// ---- weekday selector ----------------------------------------------------------------------

fn gen_nth(ch: &mut Choices, out: &mut String) -> ([bool; 5], [bool; 5]) {
    let mut from_start = [false; 5];
    let mut from_end = [false; 5];
    // every position, counted from the start and from the end: the same days as no `[..]` at all
    if ch.chance(3) {
        out.push('[');
        out.push_str(ch.pick(&["1-5,-1,-2,-3,-4,-5", "-5,-4,-3,-2,-1,1-5", "1,2,3,4,5,-1,-2,-3,-4,-5", "1-3,-1,-2,4-5,-3,-4,-5"]));
        out.push(']');
        return ([true; 5], [true; 5]);
    }
    let n = 1 + ch.weighted(&[75, 20, 5]);
    out.push('[');
    for i in 0..n {
        if i > 0 {
            out.push(',');
        }
        match ch.weighted(&[50, 30, 20]) {
            0 => {
                let k = 1 + ch.draw(5) as usize;
                out.push_str(&k.to_string());
                from_start[k - 1] = true;
            }
            1 => {
                let k = 1 + ch.draw(5) as usize;
                out.push_str(&format!("-{k}"));
                from_end[k - 1] = true;
            }
            _ => {
                // AMBIGUITY: a reversed range `[4-2]` selects nothing and is then read as "no
                // nth at all"; only increasing ranges are generated.
                let a = 1 + ch.draw(5) as usize;
                let b = (a + ch.draw(5) as usize).min(5);
                out.push_str(&format!("{a}-{b}"));
                for k in a..=b {
                    from_start[k - 1] = true;
                }
            }
        }
    }
    out.push(']');
    (from_start, from_end)
}

fn gen_weekday_range(ch: &mut Choices, cfg: &Cfg, out: &mut String) -> WeekDayRange {
    let a = ch.pick(&WDAYS);
    out.push_str(wday_str(a));
    match ch.weighted(&[40, 35, if cfg.canonical { 0 } else { 25 }]) {
        0 => WeekDayRange::Fixed {
            range: a..=a,
            offset: 0,
            nth_from_start: [true; 5],
            nth_from_end: [true; 5],
        },
        1 => {
            let b = ch.pick(&WDAYS);
            out.push('-');
            out.push_str(wday_str(b));
            WeekDayRange::Fixed {
                range: a..=b,
                offset: 0,
                nth_from_start: [true; 5],
                nth_from_end: [true; 5],
            }
        }
        _ => {
            let (nth_from_start, nth_from_end) = gen_nth(ch, out);
            let offset = if ch.chance(30) { gen_day_offset(ch, cfg, out) } else { 0 };
            WeekDayRange::Fixed { range: a..=a, offset, nth_from_start, nth_from_end }
        }
    }
}

fn gen_holiday(ch: &mut Choices, cfg: &Cfg, out: &mut String) -> WeekDayRange {
    if ch.chance(25) {
        out.push_str("SH");
        WeekDayRange::Holiday { kind: HolidayKind::School, offset: 0 }
    } else {
        out.push_str("PH");
        let offset = if ch.chance(30) { gen_day_offset(ch, cfg, out) } else { 0 };
        WeekDayRange::Holiday { kind: HolidayKind::Public, offset }
    }
}

fn gen_weekday_selector(ch: &mut Choices, cfg: &Cfg, out: &mut String) -> Vec<WeekDayRange> {
    let n_wd = if cfg.canonical { 1 + ch.weighted(&[70, 25, 5]) } else { ch.weighted(&[15, 60, 20, 5]) };
    let n_hol = if cfg.canonical {
        0
    } else if n_wd == 0 {
        1 + ch.weighted(&[80, 20])
    } else {
        ch.weighted(&[80, 16, 4])
    };
    let holidays_first = ch.chance(50);
    let mut res = Vec::new();
    let emit_wd = |ch: &mut Choices, out: &mut String, res: &mut Vec<WeekDayRange>| {
        res.extend(gen_list(ch, cfg, out, n_wd as u32, |ch, out| gen_weekday_range(ch, cfg, out)));
    };
    let emit_hol = |ch: &mut Choices, out: &mut String, res: &mut Vec<WeekDayRange>| {
        for i in 0..n_hol {
            if i > 0 {
                out.push(',');
            }
            res.push(gen_holiday(ch, cfg, out));
        }
    };
    let sep = |ch: &mut Choices, out: &mut String| {
        if n_wd > 0 && n_hol > 0 {
            out.push(if ch.chance(25) { ' ' } else { ',' });
        }
    };
    if holidays_first {
        emit_hol(ch, out, &mut res);
        sep(ch, out);
        emit_wd(ch, out, &mut res);
    } else {
        emit_wd(ch, out, &mut res);
        sep(ch, out);
        emit_hol(ch, out, &mut res);
    }
    res
}

// ---- week selector -------------------------------------------------------------------------

fn write_weeknum(ch: &mut Choices, out: &mut String, w: u8) {
    if w < 10 && ch.chance(50) {
        out.push_str(&format!("{w:02}"));
    } else {
        out.push_str(&w.to_string());
    }
}

fn gen_weeknum(ch: &mut Choices) -> u8 {
    match ch.weighted(&[60, 15, 10, 15]) {
        0 => 1 + ch.draw(53) as u8,
        1 => 53,
        2 => 1,
        _ => 52,
    }
}

fn gen_week_selector(ch: &mut Choices, cfg: &Cfg, out: &mut String) -> Vec<WeekRange> {
    out.push_str(if ch.chance(20) { "week" } else { "week " });
    let n = 1 + ch.weighted(&[80, 15, 5]) as u32;
    gen_list(ch, cfg, out, n, |ch, out| {
        let a = gen_weeknum(ch);
        write_weeknum(ch, out, a);
        match ch.weighted(&[40, 35, if cfg.canonical { 0 } else { 25 }]) {
            0 => WeekRange { range: WeekNum(a)..=WeekNum(a), step: 1 },
            1 => {
                let b = gen_weeknum(ch);
                out.push('-');
                write_weeknum(ch, out, b);
                WeekRange { range: WeekNum(a)..=WeekNum(b), step: 1 }
            }
            _ => {
                let b = gen_weeknum(ch);
                out.push('-');
                write_weeknum(ch, out, b);
                out.push('/');
                let step: u8 = if cfg.hostile && ch.chance(30) {
                    ch.pick(&[255u8, 54, 53, 100])
                } else {
                    ch.pick(&[2u8, 3, 1, 4, 26, 7])
                };
                write_number(ch, out, step.into());
                WeekRange { range: WeekNum(a)..=WeekNum(b), step }
            }
        }
    })
}

// ---- year selector -------------------------------------------------------------------------

fn gen_year_range(ch: &mut Choices, cfg: &Cfg, out: &mut String) -> YearRange {
    if cfg.force_bounded_year {
        let a = (cfg.base_year + ch.int(0, 7) as i32) as u16;
        let b = (a + ch.draw(4) as u16).min((cfg.base_year + 7) as u16);
        out.push_str(&format!("{a}-{b}"));
        return YearRange { range: Year(a)..=Year(b), step: 1 };
    }
    let a = gen_year(ch, cfg);
    out.push_str(&a.to_string());
    match ch.weighted(&[35, 30, 15, if cfg.canonical { 0 } else { 20 }]) {
        0 => YearRange { range: Year(a)..=Year(a), step: 1 },
        1 => {
            let b = if ch.chance(85) { (a + ch.draw(6) as u16).min(9999) } else { gen_year(ch, cfg) };
            out.push_str(&format!("-{b}"));
            YearRange { range: Year(a)..=Year(b), step: 1 }
        }
        2 => {
            out.push('+');
            YearRange { range: Year(a)..=Year(9999), step: 1 }
        }
        _ => {
            let b = if ch.chance(85) { (a + ch.draw(9) as u16).min(9999) } else { gen_year(ch, cfg) };
            out.push_str(&format!("-{b}/"));
            let step: u16 = if cfg.hostile && ch.chance(30) {
                ch.pick(&[65535u16, 10000, 8100, 4000])
            } else {
                ch.pick(&[2u16, 3, 4, 1, 5])
            };
            write_number(ch, out, step.into());
            YearRange { range: Year(a)..=Year(b), step }
        }
    }
}

fn gen_year_selector(ch: &mut Choices, cfg: &Cfg, out: &mut String) -> Vec<YearRange> {
    let n = 1 + ch.weighted(&[80, 16, 4]) as u32;
    gen_list(ch, cfg, out, n, |ch, out| gen_year_range(ch, cfg, out))
}

// ---- monthday selector ---------------------------------------------------------------------

fn gen_daynum(ch: &mut Choices) -> u8 {
    match ch.weighted(&[50, 10, 10, 10, 10, 10]) {
        0 => 1 + ch.draw(28) as u8,
        1 => 1,
        2 => 31,
        3 => 30,
        4 => 29,
        _ => 28,
    }
}

fn write_daynum(ch: &mut Choices, out: &mut String, d: u8) {
    if d < 10 && ch.chance(20) {
        out.push_str(&format!("{d:02}"));
    } else {
        out.push_str(&d.to_string());
    }
}

/// A date with an optional year: `Mon D`, `Y Mon D`, `easter`, `Y easter` (+ spacing variants).
fn gen_date(ch: &mut Choices, cfg: &Cfg, out: &mut String, with_year: bool) -> Date {
    let year = if with_year { Some(gen_year(ch, cfg)) } else { None };
    if let Some(y) = year {
        out.push_str(&y.to_string());
    }
    if ch.chance(12) {
        // `2020 easter` / `2020easter` / `easter`
        if year.is_some() && ch.chance(70) {
            out.push(' ');
        }
        out.push_str("easter");
        Date::Easter { year }
    } else {
        if year.is_some() && ch.chance(75) {
            out.push(' ');
        }
        // the days other constructs are defined by (`+` ends on Dec 31, year ends, leap day)
        let (month, day) = if ch.chance(10) {
            ch.pick(&[(Month::December, 31u8), (Month::January, 1), (Month::February, 29), (Month::December, 25), (Month::February, 28)])
        } else {
            (ch.pick(&MONTHS), gen_daynum(ch))
        };
        out.push_str(month_str(month));
        if ch.chance(85) {
            out.push(' ');
        }
        write_daynum(ch, out, day);
        Date::Fixed { year, month, day }
    }
}

/// A date of the last twelve days of December or the first ten of January.
fn gen_year_edge_date(ch: &mut Choices, cfg: &Cfg, out: &mut String, with_year: bool, very_end: Option<bool>) -> Date {
    let year = if with_year { Some(gen_year(ch, cfg)) } else { None };
    if let Some(y) = year {
        out.push_str(&y.to_string());
        if ch.chance(75) {
            out.push(' ');
        }
    }
    let (month, day) = match very_end {
        // the last six days of December / the first five of January
        Some(true) => (Month::December, 26 + ch.draw(6) as u8),
        Some(false) => (Month::January, 1 + ch.draw(5) as u8),
        None if ch.chance(50) => (Month::December, 20 + ch.draw(12) as u8),
        None => (Month::January, 1 + ch.draw(10) as u8),
    };
    out.push_str(month_str(month));
    out.push(' ');
    out.push_str(&day.to_string());
    Date::Fixed { year, month, day }
}

/// `+Su`, `-Su`, ` +1 day`, `+Su -1 day`.
fn gen_date_offset(ch: &mut Choices, cfg: &Cfg, out: &mut String) -> DateOffset {
    match ch.weighted(&[45, 40, 15]) {
        0 => DateOffset { wday_offset: WeekDayOffset::None, day_offset: gen_day_offset(ch, cfg, out) },
        1 => DateOffset { wday_offset: gen_wday_offset(ch, out), day_offset: 0 },
        _ => {
            let wday_offset = gen_wday_offset(ch, out);
            DateOffset { wday_offset, day_offset: gen_day_offset(ch, cfg, out) }
        }
    }
}

fn gen_wday_offset(ch: &mut Choices, out: &mut String) -> WeekDayOffset {
    let w = ch.pick(&WDAYS);
    if ch.chance(50) {
        out.push('-');
        out.push_str(wday_str(w));
        WeekDayOffset::Prev(w)
    } else {
        out.push('+');
        out.push_str(wday_str(w));
        WeekDayOffset::Next(w)
    }
}

fn gen_monthday_range(ch: &mut Choices, cfg: &Cfg, out: &mut String) -> MonthdayRange {
    let w = if cfg.canonical { [22, 16, 0, 0, 0, 0, 0, 2, 0] } else { [22, 16, 16, 8, 28, 10, 9, 5, 4] };
    match ch.weighted(&w) {
        // the same date on both ends (Easter or a fixed date, year-less or with the same year), told apart by their
        // offsets only: the end may fall before the start, or a year later (S-C06-m prints `Y easter..-Y easter..`
        // without the second year)
        8 => {
            let year = if ch.chance(60) { Some(gen_year(ch, cfg)) } else { None };
            let easter = ch.chance(55);
            let (month, day) = (ch.pick(&MONTHS), gen_daynum(ch).min(28));
            let mut side = |ch: &mut Choices, out: &mut String| -> (Date, DateOffset) {
                if let Some(y) = year {
                    out.push_str(&y.to_string());
                    out.push(' ');
                }
                let date = if easter {
                    out.push_str("easter");
                    Date::Easter { year }
                } else {
                    out.push_str(month_str(month));
                    out.push(' ');
                    out.push_str(&day.to_string());
                    Date::Fixed { year, month, day }
                };
                let offset = match ch.weighted(&[25, 35, 25, 15]) {
                    0 => DateOffset::default(),
                    1 => DateOffset { wday_offset: gen_wday_offset(ch, out), day_offset: 0 },
                    2 => DateOffset { wday_offset: WeekDayOffset::None, day_offset: gen_day_offset(ch, cfg, out) },
                    _ => {
                        let n = if cfg.max_day_offset >= 30 { 300 + i64::from(ch.draw(130)) } else { 1 + i64::from(ch.draw(9)) };
                        let sign = if ch.chance(50) { 1 } else { -1 };
                        out.push_str(&format!(" {}{n} days", if sign > 0 { '+' } else { '-' }));
                        DateOffset { wday_offset: WeekDayOffset::None, day_offset: sign * n }
                    }
                };
                (date, offset)
            };
            let start = side(ch, out);
            out.push('-');
            let end = side(ch, out);
            MonthdayRange::Date { start, end }
        }
        // date range aligned on months (`Jan 01-Feb 28`, `Mar 1-Apr 30`): almost a month range —
        // the difference is the leap day, or the days after an end that is not the last one
        7 => {
            let a = ch.pick(&MONTHS);
            let b = if ch.chance(40) { a } else { ch.pick(&MONTHS) };
            out.push_str(month_str(a));
            out.push(' ');
            out.push_str(if ch.chance(50) { "01" } else { "1" });
            out.push('-');
            let last = match b {
                Month::February => 28,
                Month::April | Month::June | Month::September | Month::November => 30,
                _ => 31,
            };
            let day: u8 = match ch.weighted(&[60, 15, 15, 10]) {
                0 => last,
                1 if b == Month::February => 29,
                1 => last - 1,
                2 => 28,
                _ => 30,
            };
            out.push_str(month_str(b));
            out.push(' ');
            out.push_str(&day.to_string());
            MonthdayRange::Date {
                start: (Date::Fixed { year: None, month: a, day: 1 }, DateOffset::default()),
                end: (Date::Fixed { year: None, month: b, day }, DateOffset::default()),
            }
        }
        // range hugging the turn of the year, where offsets carry an end into the adjacent year
        6 => {
            let with_year = ch.chance(40);
            let end_year = if with_year { ch.chance(30) } else { ch.chance(4) };
            // "crossing": a start in the last days of December pushed forward, or an end in the
            // first days of January pulled backward, possibly past the other end
            let crossing = ch.weighted(&[65, 18, 17]);
            let carried = |ch: &mut Choices, out: &mut String, forward: bool| -> DateOffset {
                if ch.chance(50) {
                    let w = ch.pick(&WDAYS);
                    out.push(if forward { '+' } else { '-' });
                    out.push_str(wday_str(w));
                    DateOffset { wday_offset: if forward { WeekDayOffset::Next(w) } else { WeekDayOffset::Prev(w) }, day_offset: 0 }
                } else {
                    let n = 2 + i64::from(ch.draw(9));
                    out.push_str(&format!(" {}{n} days", if forward { '+' } else { '-' }));
                    DateOffset { wday_offset: WeekDayOffset::None, day_offset: if forward { n } else { -n } }
                }
            };
            let start = gen_year_edge_date(ch, cfg, out, with_year, if crossing > 0 { Some(true) } else { None });
            let start_off = match crossing {
                1 => carried(ch, out, true),
                2 => DateOffset::default(),
                _ if ch.chance(50) => gen_date_offset(ch, cfg, out),
                _ => DateOffset::default(),
            };
            out.push('-');
            let end = gen_year_edge_date(ch, cfg, out, end_year, if crossing > 0 { Some(false) } else { None });
            let end_off = match crossing {
                2 => carried(ch, out, false),
                1 => DateOffset::default(),
                _ if ch.chance(50) => gen_date_offset(ch, cfg, out),
                _ => DateOffset::default(),
            };
            MonthdayRange::Date { start: (start, start_off), end: (end, end_off) }
        }
        // month or month range, optional year
        0 | 1 => {
            let year = if !cfg.canonical && ch.chance(20) { Some(gen_year(ch, cfg)) } else { None };
            if let Some(y) = year {
                out.push_str(&y.to_string());
            }
            let a = ch.pick(&MONTHS);
            out.push_str(month_str(a));
            let b = if ch.chance(50) {
                let b = ch.pick(&MONTHS);
                out.push('-');
                out.push_str(month_str(b));
                b
            } else {
                a
            };
            MonthdayRange::Month { range: a..=b, year }
        }
        // single date
        2 => {
            let with_year = ch.chance(25);
            // a day of the last days of December pushed forward, or of the first days of
            // January pulled back, by a weekday or a few days: it may fall in the adjacent year
            if !cfg.canonical && ch.chance(14) {
                let december = ch.chance(50);
                let date = gen_year_edge_date(ch, cfg, out, with_year, Some(december));
                let offset = if ch.chance(65) {
                    let w = ch.pick(&WDAYS);
                    out.push(if december { '+' } else { '-' });
                    out.push_str(wday_str(w));
                    DateOffset { wday_offset: if december { WeekDayOffset::Next(w) } else { WeekDayOffset::Prev(w) }, day_offset: 0 }
                } else {
                    let n = 2 + i64::from(ch.draw(9));
                    out.push_str(&format!(" {}{n} days", if december { '+' } else { '-' }));
                    DateOffset { wday_offset: WeekDayOffset::None, day_offset: if december { n } else { -n } }
                };
                return MonthdayRange::Date { start: (date, offset), end: (date, offset) };
            }
            let date = gen_date(ch, cfg, out, with_year);
            let offset = if cfg.single_date_max_offset > 41 && ch.chance(8) {
                let n = ch.int(41, cfg.single_date_max_offset) * if ch.chance(50) { -1 } else { 1 };
                out.push_str(&format!(" {}{} days", if n < 0 { '-' } else { '+' }, n.abs()));
                DateOffset { wday_offset: WeekDayOffset::None, day_offset: n }
            } else if ch.chance(25) {
                gen_date_offset(ch, cfg, out)
            } else {
                DateOffset::default()
            };
            MonthdayRange::Date { start: (date, offset), end: (date, offset) }
        }
        // open ended `Jan 5+`
        3 => {
            let with_year = ch.chance(30);
            let date = gen_date(ch, cfg, out, with_year);
            let offset = if ch.chance(20) { gen_date_offset(ch, cfg, out) } else { DateOffset::default() };
            out.push('+');
            let end = if with_year {
                Date::Fixed { year: Some(9999), month: Month::December, day: 31 }
            } else {
                Date::Fixed { year: None, month: Month::December, day: 31 }
            };
            MonthdayRange::Date { start: (date, offset), end: (end, DateOffset::default()) }
        }
        // full range `date - date`
        4 => {
            let with_year = ch.chance(25);
            let start = gen_date(ch, cfg, out, with_year);
            let start_off = if ch.chance(20) { gen_date_offset(ch, cfg, out) } else { DateOffset::default() };
            out.push_str(match ch.weighted(&[80, 10, 5, 5]) {
                0 => "-",
                1 => " - ",
                2 => " -",
                _ => "- ",
            });
            // a dated end is mostly combined with a dated start
            let end_year = if with_year { ch.chance(60) } else { ch.chance(6) };
            let end = gen_date(ch, cfg, out, end_year);
            let end_off = if ch.chance(20) { gen_date_offset(ch, cfg, out) } else { DateOffset::default() };
            MonthdayRange::Date { start: (start, start_off), end: (end, end_off) }
        }
        // short form `Jan 5-10` (end = day number only)
        _ => {
            let with_year = ch.chance(25);
            let year = if with_year { Some(gen_year(ch, cfg)) } else { None };
            if let Some(y) = year {
                out.push_str(&y.to_string());
                if ch.chance(75) {
                    out.push(' ');
                }
            }
            let month = ch.pick(&MONTHS);
            let day = gen_daynum(ch);
            out.push_str(month_str(month));
            if ch.chance(85) {
                out.push(' ');
            }
            write_daynum(ch, out, day);
            let start_off = if ch.chance(12) { gen_date_offset(ch, cfg, out) } else { DateOffset::default() };
            out.push_str(if ch.chance(10) { " - " } else { "-" });
            let end_day = gen_daynum(ch);
            write_daynum(ch, out, end_day);
            let end_off = if ch.chance(12) { gen_date_offset(ch, cfg, out) } else { DateOffset::default() };
            // denotation: same month, or the next one when the day number decreases (the year
            // rolls over after December)
            let (mut end_month, mut end_year, mut end_day_denoted) = (month, year, end_day);
            if day > end_day {
                end_month = month.next();
                if end_month == Month::January {
                    if end_year == Some(9999) {
                        // the range continues after the last supported year: it denotes a range
                        // ending on the last supported day
                        end_month = Month::December;
                        end_day_denoted = 31;
                    } else {
                        end_year = end_year.map(|y| y + 1);
                    }
                }
            }
            MonthdayRange::Date {
                start: (Date::Fixed { year, month, day }, start_off),
                end: (Date::Fixed { year: end_year, month: end_month, day: end_day_denoted }, end_off),
            }
        }
    }
}

fn gen_monthday_selector(ch: &mut Choices, cfg: &Cfg, out: &mut String) -> Vec<MonthdayRange> {
    let n = 1 + ch.weighted(&[82, 14, 4]) as u32;
    // List elements always start with a month, a year or "easter", so the comma is unambiguous.
    gen_list(ch, cfg, out, n, |ch, out| gen_monthday_range(ch, cfg, out))
}

// ---- rule sequence -------------------------------------------------------------------------

fn first_monthday_has_year(md: &MonthdayRange) -> bool {
    match md {
        MonthdayRange::Month { year, .. } => year.is_some(),
        MonthdayRange::Date { start: (d, _), .. } => d.has_year(),
    }
}

fn starts_with_bare_easter(md: &MonthdayRange) -> bool {
    matches!(md, MonthdayRange::Date { start: (Date::Easter { year: None }, _), .. })
}

pub struct GenRule {
    pub rule: RuleSequence,
    /// The text of the rule ends with its monthday selector (no week/weekday/time/modifier).
    pub ends_with_monthday: bool,
    pub starts_with_bare_easter: bool,
}

fn gen_comment_text(ch: &mut Choices, hostile: bool) -> String {
    if hostile && ch.chance(30) {
        return ch
            .pick(&["é ü 日本", "a\tb", "x;y||z", "24/7", "\u{0}", "'", ", ", "a, b", "\\", "🙂", "\u{202e}abc"])
            .to_string();
    }
    // a sixth of the comments are *composed*: 1..260 atoms of one to four bytes each (ASCII, separators of the
    // grammar, a backslash, accents, CJK, an emoji, a combining mark), the count drawn from a ladder bracketing
    // powers of two and the usual truncation lengths, so that a given byte offset falls inside a multi-byte
    // character in about half of the long ones and a comment ends with any atom (S-C04-g, S-C05-j)
    if ch.chance(if hostile { 25 } else { 16 }) {
        const ATOMS: &[&str] = &[
            "a", "b", "Z", "0", " ", "e", "t", ", ", ",", ";", "|", "\\", "'", ":", "/", "-", "+", "(", "[", "é", "ü", "ß", "日", "本",
            "🙂", "e\u{301}", "\u{a0}", "–", "…", ".", "\n", "\r\n", "\t", "\r",
        ];
        const COUNTS: &[usize] = &[1, 2, 3, 4, 5, 7, 8, 9, 12, 15, 16, 17, 20, 24, 31, 32, 33, 38, 39, 40, 41, 42, 48, 63, 64, 65, 79, 80, 81, 100, 127, 128, 129, 200, 255, 256, 257];
        let n = if ch.chance(70) { ch.pick(&COUNTS[..16]) } else { ch.pick(COUNTS) };
        // long comments repeat a drawn motif of at most 7 atoms (few choices consumed); a motif mixing one-byte
        // and multi-byte atoms shifts the byte offsets of what follows
        let mut text = String::new();
        let style = ch.draw(3);
        let motif: Vec<&str> = (0..n.min(7))
            .map(|i| match style {
                1 => ch.pick(&ATOMS[..8]),
                2 if i % 2 == 0 => ch.pick(&ATOMS[19..]),
                _ => ch.pick(ATOMS),
            })
            .collect();
        for i in 0..n {
            text.push_str(motif[i % motif.len()]);
        }
        if ch.chance(15) {
            text.push('\\');
        }
        return text;
    }
    // edge whitespace is part of a comment
    ch.pick(&["c0", "c1", "c2", "by appointment", "a, b", "Z", "x", "c0", "c1", " lead", "trail ", " ", "é ü", "日本", "c0", "c2", "12–13", "a\u{a0}b", "“q”", "5 − 3"]).to_string()
}

fn gen_rule(ch: &mut Choices, cfg: &Cfg, out: &mut String, operator: RuleOperator) -> GenRule {
    let canonical_cfg;
    let cfg = if cfg.canonical_pct > 0 && ch.chance(cfg.canonical_pct) {
        canonical_cfg = Cfg { canonical: true, ..cfg.clone() };
        &canonical_cfg
    } else {
        cfg
    };
    let mut comments: Vec<Arc<str>> = Vec::new();
    let mut day = DaySelector::default();
    let mut time = TimeSelector::default();
    let mut ends_with_monthday = false;
    let start_len = out.len();

    let shape = if cfg.force_bounded_year { 0 } else { ch.weighted(&[86, 6, 4, 4]) };
    let shape = if cfg.jumpable && shape == 2 { 0 } else { shape };
    let mut glue_modifier_ok = false; // the selector text ends with a time selector
    match shape {
        // 24/7
        1 => out.push_str("24/7"),
        // "comment": small selectors
        2 if cfg.comments => {
            let c = gen_comment_text(ch, cfg.hostile);
            out.push_str(&format!("\"{c}\":"));
            comments.push(Arc::from(c.as_str()));
            match ch.weighted(&[40, 30, 30]) {
                0 => {
                    time = gen_time_selector(ch, cfg, out);
                    glue_modifier_ok = true;
                }
                1 => day.weekday = gen_weekday_selector(ch, cfg, out),
                _ => {
                    day.weekday = gen_weekday_selector(ch, cfg, out);
                    out.push(' ');
                    time = gen_time_selector(ch, cfg, out);
                    glue_modifier_ok = true;
                }
            }
        }
        // modifier only (empty selector sequence)
        3 => {}
        // general case
        _ => {
            let (p_year, p_md, p_week, p_wd, p_time) = if cfg.jumpable {
                (30, 55, 20, 0, 0)
            } else if cfg.dense {
                (6, 15, 6, 60, 85)
            } else {
                (18, 35, 14, 50, 75)
            };
            let has_year = cfg.force_bounded_year || ch.chance(p_year);
            let has_md = ch.chance(p_md);
            let has_week = ch.chance(p_week);
            let mut has_wd = ch.chance(p_wd);
            let has_time = ch.chance(p_time);
            let mut has_md = has_md;
            if !(has_year || has_md || has_week || has_wd || has_time) {
                if cfg.jumpable {
                    has_md = true;
                } else {
                    has_wd = true;
                }
            }
            let year_mark = out.len();
            if has_year {
                day.year = gen_year_selector(ch, cfg, out);
            }
            if has_md {
                if cfg.relaxed && has_year && ch.chance(60) {
                    out.push(' ');
                }
                let mark = out.len();
                day.monthday = gen_monthday_selector(ch, cfg, out);
                // AMBIGUITY: a lone year directly followed by a year-less month or date reads
                // as the year *of* that month/date ("2020Jan 5"). Write the selector as a range
                // of one year instead ("2020-2020Jan 5" is not the same tree), i.e. avoid the
                // combination: give the year selector a second year.
                // AMBIGUITY: a year selector ending with a step ("2020-2030/2") directly
                // followed by a dated month/date would glue the digits of the step and of the
                // year. Same remedy.
                let lone_year = !cfg.force_bounded_year
                    && !cfg.relaxed
                    && matches!(day.year.as_slice(), [YearRange { range, step: 1 }] if range.start() == range.end())
                    && !first_monthday_has_year(&day.monthday[0]);
                let step_then_digit = !cfg.relaxed
                    && out[..mark].ends_with(|c: char| c.is_ascii_digit())
                    && out[..mark].contains('/')
                    && day.year.last().is_some_and(|yr| out[..mark].rsplit(',').next().is_some_and(|t| t.contains('/')) && yr.step >= 1)
                    && first_monthday_has_year(&day.monthday[0]);
                if lone_year && !step_then_digit && ch.chance(50) {
                    // the other remedy: the same one-year selector written as a range, which
                    // cannot be read as the year of the following month/date
                    let y = day.year[0].range.start().0;
                    let tail = out.split_off(mark);
                    out.truncate(year_mark);
                    out.push_str(&format!("{y}-{y}"));
                    out.push_str(&tail);
                } else if lone_year || step_then_digit {
                    let y = day.year.last().unwrap().range.start().0;
                    let tail = out.split_off(mark);
                    let y2 = if y < 9999 { y + 1 } else { 1900 };
                    out.push_str(&format!(",{y2}"));
                    out.push_str(&tail);
                    day.year.push(YearRange { range: Year(y2)..=Year(y2), step: 1 });
                }
                ends_with_monthday = true;
            }
            if has_week {
                if (has_year || has_md) && ch.chance(85) {
                    out.push(' ');
                }
                day.week = gen_week_selector(ch, cfg, out);
                ends_with_monthday = false;
            }
            let wide = has_year || has_md || has_week;
            if has_wd || has_time {
                if wide {
                    // separator for readability; a bare "" is only used in front of a weekday
                    let digit_next = !has_wd;
                    match ch.weighted(&[70, 12, 10, 8]) {
                        0 => out.push(' '),
                        1 => out.push_str(": "),
                        2 => out.push(':'),
                        _ if !digit_next && !has_week && out.ends_with(|c: char| c.is_ascii_alphanumeric()) => {}
                        _ => out.push(' '),
                    }
                }
                ends_with_monthday = false;
            }
            if has_wd {
                day.weekday = gen_weekday_selector(ch, cfg, out);
            }
            if has_time {
                if has_wd {
                    out.push(' ');
                }
                time = gen_time_selector(ch, cfg, out);
                glue_modifier_ok = true;
            }
        }
    }

    // modifier
    let selector_empty = out.len() == start_len;
    let comment_only = selector_empty && cfg.comments && ch.chance(25);
    let kind_choice = if comment_only {
        0
    } else if selector_empty {
        1 + ch.weighted(&[40, 25, 20, 15]) // a modifier is mandatory
    } else {
        ch.weighted(&[50, 14, 14, 8, 14])
    };
    let (kind, word) = match kind_choice {
        0 => (RuleKind::Open, ""),
        1 => (RuleKind::Closed, "off"),
        2 => (RuleKind::Closed, "closed"),
        3 => (RuleKind::Unknown, "unknown"),
        _ => (RuleKind::Open, "open"),
    };
    if !word.is_empty() {
        if !selector_empty && !(glue_modifier_ok && ch.chance(6)) {
            out.push(' ');
        }
        out.push_str(word);
        ends_with_monthday = false;
    }
    if cfg.comments && (comment_only || ch.chance(cfg.comment_pct)) {
        let c = gen_comment_text(ch, cfg.hostile);
        if out.len() > start_len && ch.chance(85) {
            out.push(' ');
        }
        out.push_str(&format!("\"{c}\""));
        comments.push(Arc::from(c.as_str()));
        ends_with_monthday = false;
    }
    // a rule made of nothing at all is not a sentence
    if out.len() == start_len {
        out.push_str("off");
        return GenRule {
            rule: RuleSequence {
                day_selector: day,
                time_selector: time,
                kind: RuleKind::Closed,
                operator,
                comments: Vec::new().into(),
            },
            ends_with_monthday: false,
            starts_with_bare_easter: false,
        };
    }

    let bare_easter = day.year.is_empty() && day.monthday.first().is_some_and(starts_with_bare_easter);
    GenRule {
        rule: RuleSequence {
            day_selector: day,
            time_selector: time,
            kind,
            operator,
            comments: comments.into(),
        },
        ends_with_monthday,
        starts_with_bare_easter: bare_easter,
    }
}

/// Generate an expression and its text.
pub fn gen_expr(ch: &mut Choices, cfg: &Cfg) -> (OpeningHoursExpression, String) {
    let jump_cfg;
    let cfg = if cfg.jumpable_pct > 0 && !cfg.jumpable && ch.chance(cfg.jumpable_pct) {
        jump_cfg = Cfg { jumpable: true, ..cfg.clone() };
        &jump_cfg
    } else {
        cfg
    };
    if cfg.long_pct > 0 && ch.chance(cfg.long_pct) {
        return gen_long_expr(ch, cfg, false);
    }
    if cfg.repeat_pct > 0 && ch.chance(cfg.repeat_pct) {
        return gen_long_expr(ch, cfg, true);
    }
    let mut out = String::new();
    let n = 1 + ch.draw(cfg.max_rules);
    let mut rules: Vec<RuleSequence> = Vec::new();
    let mut prev_ends_with_monthday = false;
    for i in 0..n {
        let mut operator = if i == 0 {
            RuleOperator::Normal
        } else {
            match ch.weighted(&[55, 25, 20]) {
                0 => RuleOperator::Normal,
                1 => RuleOperator::Additional,
                _ => RuleOperator::Fallback,
            }
        };
        let sep_mark = out.len();
        let write_sep = |ch: &mut Choices, out: &mut String, op: RuleOperator| match op {
            RuleOperator::Normal => out.push_str(match ch.weighted(&[60, 20, 10, 10]) {
                0 => "; ",
                1 => " ; ",
                2 => ";",
                _ => " ;",
            }),
            RuleOperator::Additional => out.push_str(", "),
            RuleOperator::Fallback => out.push_str(if ch.chance(15) { "|| " } else { " || " }),
        };
        if i > 0 {
            write_sep(ch, &mut out, operator);
        }
        let rule_mark = out.len();
        let mut g = gen_rule(ch, cfg, &mut out, operator);
        // AMBIGUITY: "<monthday selector>, easter ..." continues the monthday list instead of
        // starting an additional rule (the grammar allows a space in front of "easter").
        if operator == RuleOperator::Additional && prev_ends_with_monthday && g.starts_with_bare_easter {
            operator = RuleOperator::Normal;
            g.rule.operator = operator;
            let tail = out.split_off(rule_mark);
            out.truncate(sep_mark);
            out.push_str("; ");
            out.push_str(&tail);
        }
        prev_ends_with_monthday = g.ends_with_monthday;
        rules.push(g.rule);
    }
    (OpeningHoursExpression { rules }, out)
}

/// An expression of many rules: a sequence over a small pool of generated rules.
fn gen_long_expr(ch: &mut Choices, cfg: &Cfg, short: bool) -> (OpeningHoursExpression, String) {
    let m = 1 + ch.draw(if short { 3 } else { 4 }) as usize;
    let pool: Vec<(GenRule, String)> = (0..m)
        .map(|_| {
            let mut text = String::new();
            let g = gen_rule(ch, cfg, &mut text, RuleOperator::Normal);
            (g, text)
        })
        .collect();
    // lengths bracket 16 / 32 / 64 and, for a quarter of the long expressions, 100 / 128 / 200 / 256 (S-C07-i
    // loses the 101st of a run of canonical rules)
    let n = if short {
        2 + ch.draw(5)
    } else if ch.chance(75) {
        [12u32, 15, 16, 17, 18, 24, 31, 32, 33, 48, 63, 64][ch.draw(12) as usize] + ch.draw(4)
    } else {
        [96u32, 99, 100, 101, 101, 102, 103, 127, 128, 129, 130, 199, 200, 201, 202, 255, 256, 257][ch.draw(18) as usize]
    };
    // the last rule of a third of the long expressions is a rule of its own (not one of the pool): dropping or
    // misplacing exactly that rule changes the meaning
    let own_last: Option<(GenRule, String)> = if !short && ch.chance(35) {
        let mut text = String::new();
        let g = gen_rule(ch, cfg, &mut text, RuleOperator::Normal);
        Some((g, text))
    } else {
        None
    };
    let mut out = String::new();
    let mut rules: Vec<RuleSequence> = Vec::new();
    let mut prev_ends_with_monthday = false;
    let mut motif: Vec<(usize, usize)> = Vec::new();
    for i in 0..n {
        // expressions of more than 70 rules repeat a drawn motif of 9 (rule, operator) pairs: the choice budget stays
        // small and a run of a hundred rules without a fallback rule is common
        let (pick, op_draw) = if n <= 70 || i < 9 {
            let p = (ch.draw(m as u32) as usize, ch.weighted(&if short { [45, 40, 15] } else { [70, 25, 5] }));
            if i < 9 {
                motif.push(p);
            }
            p
        } else {
            motif[i as usize % motif.len()]
        };
        let (g, text) = match &own_last {
            Some(own) if i + 1 == n => own,
            _ => &pool[pick],
        };
        let mut operator = if i == 0 {
            RuleOperator::Normal
        } else {
            match op_draw {
                0 => RuleOperator::Normal,
                1 => RuleOperator::Additional,
                _ => RuleOperator::Fallback,
            }
        };
        // AMBIGUITY (see gen_expr): "<monthday selector>, easter ..." continues the list
        if operator == RuleOperator::Additional && prev_ends_with_monthday && g.starts_with_bare_easter {
            operator = RuleOperator::Normal;
        }
        if i > 0 {
            out.push_str(match operator {
                RuleOperator::Normal => "; ",
                RuleOperator::Additional => ", ",
                RuleOperator::Fallback => " || ",
            });
        }
        out.push_str(text);
        let mut rule = g.rule.clone();
        rule.operator = operator;
        rules.push(rule);
        prev_ends_with_monthday = g.ends_with_monthday;
    }
    (OpeningHoursExpression { rules }, out)
}

// ---- rare recurrences -----------------------------------------------------------------------

/// Sentences whose matching days are years apart or sit at odd places of the calendar (leap
/// days, ISO week 53, a date falling on a given weekday, year steps, offsets crossing the year
/// end, Easter restricted by a week number): what long iterator jumps must not get wrong.
pub fn gen_rare_expr(ch: &mut Choices, year_hint: i32) -> String {
    fn rule(ch: &mut Choices, year_hint: i32) -> String {
        let wd = wday_str(ch.pick(&WDAYS));
        let time = ch.pick(&["", "", " 10:00-12:00", " 20:00-26:00", " 00:00-24:00", " sunrise-sunset", " 00:00-48:00", " 00:00-30:00", " 24:00-48:00", " 12:00-12:00", " 00:00-24:00,12:00-48:00", " 00:00-24:00,22:00-26:00", " 24:00-26:00"]);
        let near_year = (year_hint + ch.int(0, 3) as i32).clamp(1900, 9999);
        let edge = |ch: &mut Choices| -> String {
            let date = if ch.chance(50) { format!("Dec {}", 20 + ch.draw(12)) } else { format!("Jan {}", 1 + ch.draw(10)) };
            let off = match ch.weighted(&[40, 25, 25, 10]) {
                0 => String::new(),
                1 => format!("{}{}", ch.pick(&["+", "-"]), wday_str(ch.pick(&WDAYS))),
                2 => format!(" {}{} days", ch.pick(&["+", "-"]), 2 + ch.draw(12)),
                _ => format!("{}{} {}{} days", ch.pick(&["+", "-"]), wday_str(ch.pick(&WDAYS)), ch.pick(&["+", "-"]), 2 + ch.draw(9)),
            };
            format!("{date}{off}")
        };
        let body = match ch.draw(19) {
            // ranges hugging the turn of the year, year-less or with a dated start
            16 => format!("{}-{}", edge(ch), edge(ch)),
            17 => format!("{near_year} {}-{}", edge(ch), edge(ch)),
            18 => format!("{}-{}", edge(ch), format!("{} {}", month_str(ch.pick(&MONTHS)), 1 + ch.draw(28))),
            0 => "Feb 29".to_string(),
            1 => format!("Feb 29 {}", ch.pick(&["+1 day", "-1 day", "+2 days", "+7 days"])),
            2 => format!("Feb 29 {wd}"),
            3 => ch.pick(&["Feb 29-Mar 1", "Feb 28-Feb 29", "Feb 29+", "Feb 29-Feb 29 +1 day"]).to_string(),
            4 => ch.pick(&["week 53", "week 53 Su", "week 53 Fr", "week 53 Mo", "week 52", "week 50-52", "week 1-52", "week 52-1", "week 51-53", "week 53-1"]).to_string(),
            5 => format!("{} {} {wd}", month_str(ch.pick(&MONTHS)), ch.pick(&[1u8, 25, 31, 29, 13, 15])),
            6 => {
                let a = ch.pick(&[1900u16, 1999, 2020, 2096, 2100, 9000]);
                format!("{a}-9999/{}", ch.pick(&[3u16, 4, 7, 9, 25, 100, 400]))
            }
            7 => format!("{}-{}/{}{}", 2020 + ch.draw(80), 2100 + ch.draw(200), ch.pick(&[2u16, 3, 5, 8]), month_str(ch.pick(&MONTHS))),
            8 => format!("easter{} week {}", ch.pick(&["", " +1 day", " -2 days"]), ch.pick(&[12u8, 13, 14, 16, 17])),
            9 => ch.pick(&["Dec 31 +2 days", "Dec 31 +1 day", "Dec 30+Su", "Jan 1 -1 day", "Jan 1-Mo", "Dec 29+Th +3 days"]).to_string(),
            10 => format!("{} Feb 29", ch.pick(&[2096u16, 2104, 2100, 2400, 9996, 2000])),
            11 => format!("week {} {wd}[{}]", ch.pick(&[1u8, 53, 52, 5, 9]), ch.pick(&["1", "-1", "5", "-5"])),
            12 => format!("{} 31 {wd}[-1]", month_str(ch.pick(&[Month::January, Month::March, Month::May, Month::December]))),
            13 => format!("PH {}", ch.pick(&["+1 day", "-1 day", "+7 days", "+30 days", "-3 days"])),
            // months glued to a year, wrapping or not
            14 => {
                let (a, b) = ch.pick(&[(Month::November, Month::February), (Month::October, Month::May), (Month::December, Month::January), (Month::March, Month::June), (Month::December, Month::December), (Month::July, Month::June)]);
                format!("{near_year}{}-{}", month_str(a), month_str(b))
            }
            _ => format!("{near_year} {} {}-{} {}", month_str(ch.pick(&MONTHS)), ch.pick(&[1u8, 15, 28, 31]), (near_year + ch.int(0, 2) as i32).min(9999), ch.pick(&["Jan 10", "Dec 31", "Feb 29", "Jun 30"])),
        };
        let modifier = ch.pick(&["", "", " off", " unknown", " \"x\""]);
        format!("{body}{time}{modifier}")
    }
    let mut s = String::new();
    match ch.draw(4) {
        0 => {}
        1 => s.push_str("24/7; "),
        2 => s.push_str("Mo-Fr 09:00-17:00; "),
        _ => s.push_str("2000-2200 Sa 10:00-14:00, "),
    }
    s.push_str(&rule(ch, year_hint));
    if ch.chance(35) {
        s.push_str(ch.pick(&["; ", ", ", " || "]));
        s.push_str(&rule(ch, year_hint));
    }
    s
}
