//! Expression-aware probe dates: dates at which *something happens* for a given syntax tree
//! (range bounds after offsets, Easter, month firsts/lasts, ISO-week Mondays, nth weekdays,
//! holidays), their neighbours, structural edges of the calendar, and uniform dates.

use chrono::{Datelike, Duration, NaiveDate, Weekday};
use opening_hours_syntax::rules::day as ds;
use opening_hours_syntax::rules::OpeningHoursExpression;

use crate::choice::Choices;
use crate::model::{self, Clamp, MCtx};

pub fn ymd(y: i32, m: u32, d: u32) -> NaiveDate {
    NaiveDate::from_ymd_opt(y, m, d).unwrap()
}

fn push(pool: &mut Vec<NaiveDate>, d: Option<NaiveDate>) {
    if let Some(d) = d {
        if (1899..=10000).contains(&d.year()) && pool.len() < 400 {
            pool.push(d);
        }
    }
}

/// Years the expression itself mentions (selectors and dated ranges).
pub fn mentioned_years(e: &OpeningHoursExpression) -> Vec<i32> {
    let mut ys = Vec::new();
    for r in &e.rules {
        for yr in &r.day_selector.year {
            ys.push(i32::from(yr.range.start().0));
            ys.push(i32::from(yr.range.end().0));
        }
        for md in &r.day_selector.monthday {
            match md {
                ds::MonthdayRange::Month { year: Some(y), .. } => ys.push(i32::from(*y)),
                ds::MonthdayRange::Date { start, end } => {
                    ys.extend(model::date_year(&start.0));
                    ys.extend(model::date_year(&end.0));
                }
                _ => {}
            }
        }
    }
    ys.retain(|y| (1900..=9999).contains(y));
    ys.sort();
    ys.dedup();
    ys
}

/// Dates at which the selectors of `e` start or stop matching, for the given years.
pub fn interesting_dates(e: &OpeningHoursExpression, years: &[i32], ctx: &MCtx) -> Vec<NaiveDate> {
    let mut pool = Vec::new();
    for r in &e.rules {
        let s = &r.day_selector;
        for yr in &s.year {
            for y in [yr.range.start().0, yr.range.end().0] {
                let y = i32::from(y);
                push(&mut pool, NaiveDate::from_ymd_opt(y, 1, 1));
                push(&mut pool, NaiveDate::from_ymd_opt(y, 12, 31));
                if yr.step > 1 {
                    push(&mut pool, NaiveDate::from_ymd_opt(y + i32::from(yr.step.min(50)), 1, 1));
                }
            }
        }
        for md in &s.monthday {
            match md {
                ds::MonthdayRange::Month { range, year } => {
                    let ys: Vec<i32> = year.map(|y| vec![i32::from(y), i32::from(y) + 1]).unwrap_or_else(|| years.to_vec());
                    for y in ys {
                        for m in [*range.start() as u32, *range.end() as u32] {
                            push(&mut pool, NaiveDate::from_ymd_opt(y, m, 1));
                            push(&mut pool, NaiveDate::from_ymd_opt(y, m, model::days_in_month(y, m)));
                        }
                    }
                }
                ds::MonthdayRange::Date { start, end } => {
                    // the single interval of a range with a dated start: both ends, a day
                    // inside, the days around
                    if start != end {
                        if let Some((s0, e0)) = model::dated_interval(start, end) {
                            push(&mut pool, Some(s0));
                            push(&mut pool, Some(e0));
                            push(&mut pool, s0.checked_add_signed(Duration::days((e0 - s0).num_days() / 2)));
                            push(&mut pool, e0.succ_opt());
                            push(&mut pool, s0.pred_opt());
                        }
                    }
                    for side in [start, end] {
                        let ys: Vec<i32> = model::date_year(&side.0).map(|y| vec![y]).unwrap_or_else(|| years.to_vec());
                        for y in ys {
                            for clamp in [Clamp::After, Clamp::Before] {
                                let base = model::resolve(&side.0, y, clamp);
                                push(&mut pool, base);
                                push(&mut pool, base.and_then(|b| model::apply_offset(b, &side.1)));
                            }
                        }
                    }
                }
            }
        }
        for wr in &s.week {
            for y in years {
                for w in [wr.range.start().0, wr.range.end().0] {
                    let monday = NaiveDate::from_isoywd_opt(*y, u32::from(w), Weekday::Mon);
                    push(&mut pool, monday);
                    push(&mut pool, monday.map(|m| m + Duration::days(6)));
                    if wr.step > 1 {
                        push(&mut pool, monday.map(|m| m + Duration::days(7 * i64::from(wr.step.min(60)))));
                    }
                }
            }
        }
        for wd in &s.weekday {
            match wd {
                ds::WeekDayRange::Fixed { range, offset, nth_from_start, nth_from_end } => {
                    let restricted = nth_from_start.contains(&false) || nth_from_end.contains(&false);
                    if restricted || *offset != 0 {
                        // nth weekdays of two months of the first year
                        if let Some(y) = years.first() {
                            for m in [1u32, 2, 12] {
                                for day in 1..=model::days_in_month(*y, m) {
                                    let d = ymd(*y, m, day);
                                    if d.weekday() == *range.start() && pool.len() < 380 {
                                        push(&mut pool, d.checked_add_signed(Duration::days((*offset).clamp(-400, 400))));
                                    }
                                }
                            }
                        }
                    }
                }
                ds::WeekDayRange::Holiday { kind, offset } => {
                    let set = match kind {
                        ds::HolidayKind::Public => &ctx.ph,
                        ds::HolidayKind::School => &ctx.sh,
                    };
                    for d in set.iter().take(40) {
                        push(&mut pool, d.checked_add_signed(Duration::days((*offset).clamp(-400, 400))));
                    }
                }
            }
        }
    }
    pool
}

const STRUCTURAL: [(u32, u32); 10] = [(2, 28), (2, 29), (3, 1), (12, 28), (12, 31), (1, 1), (1, 4), (12, 29), (6, 30), (1, 3)];

#[derive(Clone)]
pub struct DateGen {
    pub pool: Vec<NaiveDate>,
    pub base_year: i32,
}

impl DateGen {
    pub fn new(e: &OpeningHoursExpression, base_year: i32, ctx: &MCtx) -> Self {
        let mut years = vec![base_year, base_year + 1, base_year + 4];
        years.extend(mentioned_years(e).into_iter().take(4));
        years.sort();
        years.dedup();
        DateGen { pool: interesting_dates(e, &years, ctx), base_year }
    }

    /// A probe date within 1900-01-01..=9999-12-31 (and, when `outside` is set, sometimes
    /// outside of it).
    pub fn draw(&self, ch: &mut Choices, outside: bool) -> NaiveDate {
        let d = match ch.weighted(&[if self.pool.is_empty() { 0 } else { 55 }, 12, 25, 5, 3]) {
            0 => {
                let base = self.pool[ch.draw(self.pool.len() as u32) as usize];
                let delta = ch.pick(&[0i64, 1, -1, 2, -2, 7, -7]);
                base + Duration::days(delta)
            }
            1 => {
                // structural edges: leap days, year ends, ISO week 53 years
                let y = match ch.draw(4) {
                    0 => self.base_year + ch.int(0, 8) as i32,
                    1 => ch.pick(&[2020, 2026, 2032, 2015, 2004, 2100, 2000]), // years with week 53 / century rules
                    2 => ch.pick(&[1900, 9999, 1901, 9998]),
                    _ => self.base_year,
                };
                let (m, dd) = ch.pick(&STRUCTURAL);
                NaiveDate::from_ymd_opt(y, m, dd).unwrap_or_else(|| ymd(y, m, 28))
            }
            2 => ymd(self.base_year - 1, 1, 1) + Duration::days(ch.int(0, 366 * 10)),
            3 => ymd(1900, 1, 1) + Duration::days(ch.int(0, 2_958_464)),
            _ => ch.pick(&[ymd(1900, 1, 1), ymd(9999, 12, 31), ymd(1900, 1, 2), ymd(9999, 12, 30)]),
        };
        if outside && ch.chance(6) {
            return ch.pick(&[ymd(1899, 12, 31), ymd(10000, 1, 1), ymd(1899, 12, 30), ymd(10000, 1, 2), ymd(1, 1, 1), ymd(20000, 6, 1)]);
        }
        if d.year() < 1900 {
            ymd(1900, 1, 1)
        } else if d.year() > 9999 {
            ymd(9999, 12, 31)
        } else {
            d
        }
    }
}
