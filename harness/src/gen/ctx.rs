//! Evaluation contexts: holiday calendars (kept both as `CompactCalendar` for the library and as
//! plain sets for the model).

use std::collections::BTreeSet;
use std::sync::Arc;

use chrono::{Duration, NaiveDate};
use compact_calendar::CompactCalendar;
use opening_hours::ContextHolidays;

use crate::choice::Choices;
use crate::model::MCtx;

#[derive(Clone, Debug, Default)]
pub struct GenHolidays {
    pub model: MCtx,
    pub holidays: ContextHolidays,
}

/// The same set of dates inserted in increasing order, in decreasing order (every insertion then
/// grows the calendar at its front) or from the middle outwards: equal calendars, possibly laid
/// out differently in memory.
fn to_calendar(set: &BTreeSet<NaiveDate>, order: u32) -> CompactCalendar {
    let mut cal = CompactCalendar::default();
    let dates: Vec<NaiveDate> = set.iter().copied().collect();
    match order {
        0 => dates.iter().for_each(|d| {
            cal.insert(*d);
        }),
        1 => dates.iter().rev().for_each(|d| {
            cal.insert(*d);
        }),
        _ => {
            let mid = dates.len() / 2;
            for k in 0..dates.len() {
                // mid, mid-1, mid+1, mid-2, ...
                let i = if k % 2 == 0 { mid + k / 2 } else { mid.wrapping_sub(k / 2 + 1) };
                if let Some(d) = dates.get(i) {
                    cal.insert(*d);
                }
            }
            for d in &dates {
                cal.insert(*d);
            }
        }
    }
    cal
}

pub fn describe(h: &GenHolidays) -> String {
    let f = |s: &BTreeSet<NaiveDate>| s.iter().map(|d| d.to_string()).collect::<Vec<_>>().join(",");
    format!("PH={{{}}} SH={{{}}}", f(&h.model.ph), f(&h.model.sh))
}

/// Calendars holding exactly the given dates.
pub fn holidays_from_sets(ph: BTreeSet<NaiveDate>, sh: BTreeSet<NaiveDate>, order: u32) -> GenHolidays {
    let holidays = ContextHolidays::new(Arc::new(to_calendar(&ph, order % 3)), Arc::new(to_calendar(&sh, (order + 1) % 3)));
    GenHolidays { model: MCtx { ph, sh }, holidays }
}

/// Calendars with dates placed in `base_year - 1 ..= base_year + 8`.
pub fn gen_holidays(ch: &mut Choices, base_year: i32) -> GenHolidays {
    let mut ph = BTreeSet::new();
    let mut sh = BTreeSet::new();
    // (for expressions around 1900 the calendars start in 1899: a shifted holiday selector looks
    // at days before the supported range)
    let origin = NaiveDate::from_ymd_opt(base_year.clamp(1900, 9990) - 1, 1, 1).unwrap();
    let span_days = 10 * 366;
    if ch.chance(75) {
        let n = ch.weighted(&[10, 30, 30, 30]);
        let count = [2, 6, 14, 30][n];
        for _ in 0..count {
            let d = origin + Duration::days(ch.int(0, span_days));
            ph.insert(d);
            // neighbours and year edges make offsets and hints interesting
            match ch.weighted(&[70, 10, 10, 10]) {
                1 => {
                    ph.insert(d + Duration::days(1));
                }
                2 => {
                    ph.insert(NaiveDate::from_ymd_opt(chrono::Datelike::year(&d), 12, 31).unwrap());
                }
                3 => {
                    ph.insert(NaiveDate::from_ymd_opt(chrono::Datelike::year(&d), 1, 1).unwrap());
                }
                _ => {}
            }
        }
    }
    if ch.chance(55) {
        let blocks = 1 + ch.draw(5);
        for _ in 0..blocks {
            let d = origin + Duration::days(ch.int(0, span_days));
            let len = 1 + ch.int(0, 16);
            for k in 0..len {
                sh.insert(d + Duration::days(k));
            }
        }
    }
    let order = ch.weighted(&[50, 25, 25]) as u32;
    let holidays = ContextHolidays::new(Arc::new(to_calendar(&ph, order)), Arc::new(to_calendar(&sh, (order + 1) % 3)));
    GenHolidays { model: MCtx { ph, sh }, holidays }
}
