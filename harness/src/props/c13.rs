//! C13 — normalization is idempotent and deterministic; the normal form is printable (C06).

use crate::choice::Choices;
use crate::engine::Property;
use crate::gen::expr::Cfg;
use crate::gen::labels::label_expr;
use crate::props::c06::roundtrip_relation;
use crate::props::common::gen_case;
use crate::runner::{guard, Case, SubCheck};

fn idempotent(ch: &mut Choices, case: &mut Case) -> Result<(), String> {
    let base_year = 2020;
    let cfg = Cfg { max_rules: 5, base_year, dense: ch.chance(65), canonical_pct: ch.pick(&[85, 60, 100, 0]), max_day_offset: 30, long_pct: 4, repeat_pct: 6, ..Cfg::default() };
    let g = gen_case(ch, &cfg)?;
    case.key = g.text.clone();
    label_expr(&g.ast, case);
    let n1 = guard(|| g.ast.clone().normalize()).map_err(|p| format!("`{}`: normalize panicked: {p}", g.text))?;
    let n2 = guard(|| n1.clone().normalize()).map_err(|p| format!("`{}`: second normalize panicked: {p}", g.text))?;
    case.nontrivial = n1 != g.ast;
    if n2 != n1 {
        return Err(format!(
            "`{}`: normalize is not idempotent: first pass `{n1}`, second pass `{n2}`",
            g.text
        ));
    }
    // deterministic: equal expressions give equal results, also from another thread and
    // through the OpeningHours wrapper
    let clone = g.ast.clone();
    let other = if ch.chance(4) {
        case.label("other_thread");
        std::thread::scope(|s| s.spawn(move || guard(|| clone.normalize())).join())
            .map_err(|_| "thread panicked".to_string())?
            .map_err(|p| format!("normalize on another thread panicked: {p}"))?
    } else {
        guard(|| clone.normalize()).map_err(|p| format!("normalize of a clone panicked: {p}"))?
    };
    if other != n1 {
        return Err(format!("`{}`: two normalizations of equal expressions differ: `{n1}` vs `{other}`", g.text));
    }
    let via_oh = guard(|| g.oh.normalize().to_string()).map_err(|p| format!("OpeningHours::normalize panicked: {p}"))?;
    if via_oh != n1.to_string() {
        return Err(format!("`{}`: OpeningHours::normalize gives `{via_oh}`, the expression gives `{n1}`", g.text));
    }
    // the reparsed text of the input normalizes to the same normal form
    if let Ok(same) = opening_hours_syntax::parse(&g.text) {
        if same.normalize() != n1 {
            return Err(format!("`{}`: normalizing a second parse of the same text gives another result", g.text));
        }
    }
    // printable and reparseable (C06 relation on the normal form)
    let norm_oh = g.oh.normalize();
    let mut units = 0;
    roundtrip_relation(ch, &g, &norm_oh, &n1, &format!("the normal form of `{}`", g.text), 4, &mut units)?;
    case.units = units + 3;
    Ok(())
}

fn idempotent_text(text: &str, case: &mut Case) -> Result<(), String> {
    case.key = text.to_string();
    let ast = opening_hours_syntax::parse(text).map_err(|e| e.to_string())?;
    let n1 = ast.normalize();
    let n2 = n1.clone().normalize();
    if n1 != n2 {
        return Err(format!("`{text}`: normalize is not idempotent: first pass `{n1}`, second pass `{n2}`"));
    }
    Ok(())
}

pub fn property() -> Property {
    Property {
        id: "C13",
        subs: vec![SubCheck {
            name: "idempotent",
            rule: "generated expression e (1-5 rules, 65 % dense): normalize(normalize(e)) == normalize(e); normalizing a clone on another thread, through OpeningHours::normalize and from a second parse of the same text gives the same result; the normal form satisfies the C06 print/reparse relation on 4 dates; non-trivial = the first pass changed the expression",
            f: idempotent,
            text_f: Some(idempotent_text),
            cases_quick: 120_000,
            cases_thorough: 1_200_000,
            max_choices: 340,
        }],
        extra: None,
        assumptions: vec!["equality is the library's derived PartialEq on expressions"],
    }
}
