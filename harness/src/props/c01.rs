//! C01 — day schedules follow the documented rule semantics.
//!
//! Oracle: the reference model of `crate::model` (DESIGN.md section 2), evaluated on the parsed
//! syntax tree, compared minute by minute with `schedule_at` and at drawn minutes with `state`.

use chrono::{Datelike, NaiveDate, NaiveTime};
use opening_hours::{Context, OpeningHours};
use opening_hours_syntax::rules::{OpeningHoursExpression, RuleKind};

use crate::choice::Choices;
use crate::engine::Property;
use crate::gen::ctx::{describe, gen_holidays, GenHolidays};
use crate::gen::dates::DateGen;
use crate::gen::expr::{gen_expr, Cfg};
use crate::gen::labels::label_expr;
use crate::model::{self, K};
use crate::runner::{guard, Case, SubCheck, SubOutcome, Tier};

pub fn flatten(oh: &OpeningHours, d: NaiveDate) -> Result<[K; 1440], String> {
    let trs: Vec<_> = guard(|| oh.schedule_at(d).into_iter().collect())?;
    let mut out = [K::C; 1440];
    let mut covered = 0u32;
    for t in &trs {
        let (a, b) = (t.range.start.mins_from_midnight(), t.range.end.mins_from_midnight());
        if a >= b || b > 1440 {
            return Err(format!("schedule_at({d}) yields the malformed range {:?}", t.range));
        }
        for m in a..b {
            out[m as usize] = K::of(t.kind);
            covered += 1;
        }
    }
    if covered != 1440 {
        return Err(format!("schedule_at({d}) iterates over {covered} minutes instead of 1440"));
    }
    Ok(out)
}

pub fn fmt_minute(m: usize) -> String {
    format!("{:02}:{:02}", m / 60, m % 60)
}

pub fn describe_day(day: &[K; 1440]) -> String {
    let mut s = String::new();
    let mut start = 0;
    for m in 1..=1440 {
        if m == 1440 || day[m] != day[start] {
            if day[start] != K::C {
                s.push_str(&format!("{}-{} {:?}, ", fmt_minute(start), fmt_minute(m), day[start]));
            }
            start = m;
        }
    }
    if s.is_empty() {
        "closed all day".into()
    } else {
        s
    }
}

/// Compare one day; returns the model's day info for non-triviality accounting.
pub fn compare_day(
    oh: &OpeningHours,
    ast: &OpeningHoursExpression,
    h: &GenHolidays,
    d: NaiveDate,
) -> Result<model::DayInfo, String> {
    let (exp, info) = model::eval_day(ast, d, &h.model);
    let got = flatten(oh, d)?;
    if got != exp {
        let m = (0..1440).find(|m| got[*m] != exp[*m]).unwrap();
        return Err(format!(
            "on {d} ({:?}) at {}: schedule_at gives {:?}, documented semantics give {:?}; library day: [{}] model day: [{}]",
            d.weekday(),
            fmt_minute(m),
            got[m],
            exp[m],
            describe_day(&got),
            describe_day(&exp)
        ));
    }
    Ok(info)
}

/// Ranges whose two ends carry a year denote one interval whatever their offsets are: offsets of any size
/// (beyond a year, beyond the supported range, beyond what a date or a duration type holds) are decided by
/// integer arithmetic on day numbers.
fn far_offsets(ch: &mut Choices, case: &mut Case) -> Result<(), String> {
    use chrono::Duration;
    let md = |ch: &mut Choices| (1 + ch.draw(12), 1 + ch.draw(28));
    let month = |m: u32| ["Jan", "Feb", "Mar", "Apr", "May", "Jun", "Jul", "Aug", "Sep", "Oct", "Nov", "Dec"][m as usize - 1];
    let y1 = match ch.weighted(&[70, 10, 10, 10]) {
        0 => 2015 + ch.draw(10) as i32,
        1 => 1900 + ch.draw(3) as i32,
        2 => 9996 + ch.draw(4) as i32,
        _ => 1900 + ch.draw(8100) as i32,
    };
    let y2 = (y1 + [0, 0, 1, 1, 2, 7, 100][ch.draw(7) as usize]).min(9999);
    let (m1, d1) = md(ch);
    let (mut m2, mut d2) = md(ch);
    if y1 == y2 && (m2, d2) <= (m1, d1) {
        (m2, d2) = (12, 31);
    }
    let base1 = NaiveDate::from_ymd_opt(y1, m1, d1).unwrap();
    let base2 = NaiveDate::from_ymd_opt(y2, m2, d2).unwrap();
    // magnitude of an offset: small, beyond a year, beyond the supported range, next to the limits of the types
    let magnitude = |ch: &mut Choices, base: NaiveDate, negative: bool| -> i64 {
        let to_limit = if negative { (base - NaiveDate::MIN).num_days() } else { (NaiveDate::MAX - base).num_days() };
        let to_range = if negative { (base - NaiveDate::from_ymd_opt(1900, 1, 1).unwrap()).num_days() } else { (NaiveDate::from_ymd_opt(9999, 12, 31).unwrap() - base).num_days() };
        let near = |ch: &mut Choices, x: i64| x.saturating_add(ch.int(-9, 9)).max(1);
        match ch.weighted(&[14, 14, 12, 12, 12, 12, 12, 12]) {
            0 => ch.int(1, 40),
            1 => ch.int(41, 1200),
            2 => ch.pick(&[36_500i64, 365_000, 2_958_465, 3_000_000, 40_000_000, 200_000_000]) + ch.int(-2, 2),
            3 => near(ch, to_range),
            4 => near(ch, to_limit),
            5 => near(ch, 106_751_991_167),
            6 => i64::MAX - ch.int(0, 9),
            _ => {
                let x = ch.pick(&[1i64 << 31, 1 << 32, 1 << 53, 86_400_000, 95_745_000, 1 << 62]);
                near(ch, x)
            }
        }
    };
    let offset = |ch: &mut Choices, base: NaiveDate, mostly_negative: bool| -> (String, i64) {
        if ch.chance(20) {
            return (String::new(), 0);
        }
        let negative = ch.chance(if mostly_negative { 75 } else { 25 });
        let k = magnitude(ch, base, negative);
        (format!(" {}{k} day{}", if negative { '-' } else { '+' }, if k == 1 { "" } else { "s" }), if negative { -k } else { k })
    };
    let (o1, k1) = offset(ch, base1, true);
    let (o2, k2) = offset(ch, base2, false);
    let text = format!(
        "{}{y1} {} {d1}{o1}-{y2} {} {d2}{o2}{}",
        ch.pick(&["", "", "24/7; ", "Mo-Su 10:00-12:00; ", "Mo-Fr 08:00-20:00 unknown; "]),
        month(m1),
        month(m2),
        ch.pick(&["", " 10:00-12:00", " off", " unknown", " 22:00-26:00", " closed \"x\"", " 00:00-24:00"])
    );
    let holidays = gen_holidays(ch, y1);
    case.key = text.clone();
    let ast = match guard(|| opening_hours_syntax::parse(&text)) {
        Err(p) => return Err(format!("parse panicked: {p}")),
        Ok(Err(e)) => return Err(format!("constructed sentence rejected: {e}")),
        Ok(Ok(ast)) => ast,
    };
    if let Some(tag) = model::undecided(&ast) {
        case.exclude(format!("undecided:{tag}"));
        return Ok(());
    }
    let oh = OpeningHours::parse(&text)
        .map_err(|e| format!("OpeningHours::parse rejects what the syntax crate accepts: {e}"))?
        .with_context(Context::default().with_holidays(holidays.holidays.clone()));
    let first = NaiveDate::from_ymd_opt(1900, 1, 1).unwrap();
    let last = NaiveDate::from_ymd_opt(9999, 12, 31).unwrap();
    let mut probes = vec![first, first.succ_opt().unwrap(), last, last.pred_opt().unwrap()];
    for (base, k) in [(base1, k1), (base2, k2)] {
        for x in [Some(base), Duration::try_days(k).and_then(|k| base.checked_add_signed(k))].into_iter().flatten() {
            for delta in -2..=2 {
                if let Some(d) = x.checked_add_signed(Duration::days(delta)) {
                    probes.push(d);
                }
            }
        }
    }
    for _ in 0..4 {
        probes.push(first + Duration::days(ch.int(0, (last - first).num_days())));
        probes.push(base1 + Duration::days(ch.int(-800, 800)));
    }
    for d in probes {
        if d < first || d > last {
            continue;
        }
        case.units += 1;
        compare_day(&oh, &ast, &holidays, d).map_err(|m| format!("{text}: {m}"))?;
    }
    let big = k1.unsigned_abs().max(k2.unsigned_abs());
    case.label(match big {
        0..=40 => "offsets_up_to_40_days",
        41..=1200 => "offset_beyond_40_days",
        1201..=200_000_100 => "offset_beyond_three_years",
        _ => "offset_beyond_what_a_date_can_hold",
    });
    case.nontrivial = big > 40;
    Ok(())
}

fn semantics(ch: &mut Choices, case: &mut Case) -> Result<(), String> {
    let base_year = if ch.chance(85) { 2020 } else { ch.pick(&[1900, 9990, 2096, 1995, 2396]) };
    let cfg = Cfg {
        max_rules: 4,
        base_year,
        dense: ch.chance(50),
        repeats: false,
        max_day_offset: 10,
        single_date_max_offset: 300,
        repeat_pct: 4,
        ..Cfg::default()
    };
    let (_, text) = gen_expr(ch, &cfg);
    let holidays = gen_holidays(ch, base_year);
    case.key = format!("{text}  {}", describe(&holidays));
    let ast = match guard(|| opening_hours_syntax::parse(&text)) {
        Err(p) => return Err(format!("parse panicked: {p}")),
        Ok(Err(e)) => return Err(format!("generated sentence rejected: {e}")),
        Ok(Ok(ast)) => ast,
    };
    label_expr(&ast, case);
    if let Some(tag) = model::undecided(&ast) {
        case.exclude(format!("undecided:{tag}"));
        return Ok(());
    }
    let oh = OpeningHours::parse(&text)
        .map_err(|e| format!("OpeningHours::parse rejects what the syntax crate accepts: {e}"))?
        .with_context(Context::default().with_holidays(holidays.holidays.clone()));
    let dates = DateGen::new(&ast, base_year, &holidays.model);
    let n_dates = 12;
    let mut nontrivial = false;
    for _ in 0..n_dates {
        let d = dates.draw(ch, true);
        if let Some(tag) = model::undecided_at(&ast, d.year()) {
            case.exclude(format!("undecided:{tag}"));
            continue;
        }
        case.units += 1;
        let info = compare_day(&oh, &ast, &holidays, d).map_err(|m| format!("{text}: {m}"))?;
        if info.selective_rule_applied {
            case.label("selective_rule_applies");
        }
        if info.spill_painted {
            case.label("spill_from_yesterday");
        }
        if info.fallback_used {
            case.label("fallback_used");
        }
        if d.month() == 2 && d.day() == 29 {
            case.label("leap_day");
        }
        if model::iso_week(d) == 53 {
            case.label("iso_week_53");
        }
        if !model::in_supported_range(d) {
            case.label("outside_1900_9999");
        }
        if info.selective_rule_applied && info.contributing_rules >= 1 && (ast.rules.len() >= 2 || info.spill_painted) {
            nontrivial = true;
        }
        // state() at three minutes of that day agrees with the documented schedule
        if model::in_supported_range(d) {
            let (exp, _) = model::eval_day(&ast, d, &holidays.model);
            for _ in 0..3 {
                let m = match ch.draw(4) {
                    0 => 0,
                    1 => 1439,
                    _ => ch.draw(1440),
                } as usize;
                let t = d.and_time(NaiveTime::from_num_seconds_from_midnight_opt(m as u32 * 60 + ch.draw(60), 0).unwrap());
                let got = guard(|| oh.state(t)).map_err(|p| format!("{text}: state({t}) panicked: {p}"))?;
                let exp_kind = match exp[m] {
                    K::O => RuleKind::Open,
                    K::C => RuleKind::Closed,
                    K::U => RuleKind::Unknown,
                };
                if got != exp_kind {
                    return Err(format!("{text}: state({t}) = {got:?}, documented semantics give {exp_kind:?}"));
                }
            }
        }
    }
    case.nontrivial = nontrivial;
    Ok(())
}

/// Replay / regression entry: "expression @ yyyy-mm-dd" with empty calendars.
fn semantics_text(text: &str, case: &mut Case) -> Result<(), String> {
    case.key = text.to_string();
    let (expr, date) = text.rsplit_once(" @ ").ok_or("bad replay text")?;
    let d: NaiveDate = date.trim().parse().map_err(|_| "bad date")?;
    let ast = opening_hours_syntax::parse(expr).map_err(|e| e.to_string())?;
    let oh = OpeningHours::parse(expr).map_err(|e| e.to_string())?;
    compare_day(&oh, &ast, &GenHolidays::default(), d).map(|_| ()).map_err(|m| format!("{expr}: {m}"))
}

// ---- full-range sweeps (thorough): one expression, every day 1900-01-01..9999-12-31 ---------

fn sweep(ch: &mut Choices, case: &mut Case) -> Result<(), String> {
    let base_year = ch.pick(&[2020, 1900, 9990, 2400]);
    let cfg = Cfg { max_rules: 2, base_year, dense: false, repeats: false, ..Cfg::default() };
    let (_, text) = gen_expr(ch, &cfg);
    let holidays = gen_holidays(ch, base_year);
    case.key = format!("{text}  {}", describe(&holidays));
    let Ok(Ok(ast)) = guard(|| opening_hours_syntax::parse(&text)) else {
        return Err("generated sentence rejected or parser panicked".into());
    };
    if let Some(tag) = model::undecided(&ast) {
        case.exclude(format!("undecided:{tag}"));
        return Ok(());
    }
    let oh = OpeningHours::parse(&text)
        .map_err(|e| e.to_string())?
        .with_context(Context::default().with_holidays(holidays.holidays.clone()));
    opening_hours::verif_hooks::set_limit(None);
    let mut d = NaiveDate::from_ymd_opt(1900, 1, 1).unwrap();
    let end = NaiveDate::from_ymd_opt(9999, 12, 31).unwrap();
    let mut applied = 0u64;
    let mut undecided_year = (0, false);
    while d <= end {
        if undecided_year.0 != d.year() {
            undecided_year = (d.year(), model::undecided_at(&ast, d.year()).is_some());
        }
        if !undecided_year.1 {
            let info = compare_day(&oh, &ast, &holidays, d).map_err(|m| format!("{text}: {m}"))?;
            case.units += 1;
            if info.selective_rule_applied {
                applied += 1;
            }
        }
        d = d.succ_opt().unwrap();
    }
    case.nontrivial = applied > 0;
    label_expr(&ast, case);
    Ok(())
}

/// Exhaustive over the years: what depends on a per-year computation (Easter, ISO week
/// numbering, leap days) is compared with the model in *every* year 1900..9999, on the days
/// around the event — a slip that shows in 5 years out of 8100 is invisible to sampling.
fn check_year_tables(index: u64, acc: &mut crate::util::Acc) {
    let y = 1900 + index as i32;
    let e = model::easter(y);
    let ymd = |yy: i32, m: u32, d: u32| NaiveDate::from_ymd_opt(yy, m, d);
    let around = |c: NaiveDate, before: i64, after: i64| -> Vec<NaiveDate> { (-before..=after).filter_map(|k| c.checked_add_signed(chrono::Duration::days(k))).collect() };
    let year_end: Vec<NaiveDate> = around(ymd(y, 12, 31).unwrap(), 9, 0).into_iter().chain(around(ymd(y, 1, 1).unwrap(), 0, 9)).collect();
    let cases: [(&str, Vec<NaiveDate>); 5] = [
        ("easter", around(e, 8, 8)),
        ("easter -2 days-easter +1 day 10:00-12:00", around(e, 4, 3)),
        ("week 1,52,53 Mo-Su", year_end.clone()),
        ("Feb 29; Feb 28-Mar 1 unknown \"x\"", around(ymd(y, 2, 28).unwrap(), 1, 2)),
        ("week 2-51/7 off || Su[-1],Mo[1] 08:00-12:00", year_end),
    ];
    let none = GenHolidays::default();
    for (expr, days) in cases {
        let (Ok(ast), Ok(oh)) = (opening_hours_syntax::parse(expr), OpeningHours::parse(expr)) else {
            return acc.fail("semantics", format!("{expr} @ {y}-01-01"), format!("constructed sentence `{expr}` rejected"));
        };
        for d in days {
            if !model::in_supported_range(d) {
                continue;
            }
            match compare_day(&oh, &ast, &none, d) {
                Ok(info) => acc.case(info.selective_rule_applied),
                Err(m) => return acc.fail("semantics", format!("{expr} @ {d}"), format!("{expr}: {m}")),
            }
        }
    }
    if index % 1013 == 0 {
        acc.sample(|| format!("year {y}: Easter on {e}, ISO week of Dec 31 = {}", model::iso_week(ymd(y, 12, 31).unwrap())));
    }
}

fn extra(_tier: Tier, _seed: u64) -> Vec<SubOutcome> {
    vec![crate::util::par_enumerate(
        "year_tables",
        "exhaustive over the years 1900..9999: `easter`, an Easter range with offsets, `week 1,52,53`, a week step with nth weekdays and `Feb 29` against the reference model on the days around Easter (+-8), around the turn of the year (Dec 22..Jan 10) and around the end of February; non-trivial = the selector applies on the day",
        8100,
        check_year_tables,
    )]
}

pub fn property() -> Property {
    Property {
        id: "C01",
        subs: vec![
            SubCheck {
                name: "semantics",
                rule: "generated expression (1-4 rules, all selector kinds; half of them 'dense' = few selector kinds so that rules interact) x generated PH/SH calendars x 12 expression-aware dates (selector bounds after offsets +-0/1/2/7 days, Easter, month ends, ISO-week Mondays, nth weekdays, holidays, leap days, year ends, week-53 years, 1900/9999 edges, uniform) : schedule_at flattened to 1440 kinds and state() at 3 minutes vs the reference model, on the decided domain (2.4); non-trivial = a rule with a day selector applied on the day or the day before and (the expression has >= 2 rules or a span spilled from the previous day)",
                f: semantics,
                text_f: Some(semantics_text),
                cases_quick: 300_000,
                cases_thorough: 600_000,
                max_choices: 440,
            },
            SubCheck {
                name: "far_offsets",
                rule: "constructed range with a year on both ends (`2019 Mar 5 -K days-2021 Jul 9 +K' days`, optionally after another rule, with a span / modifier) whose day offsets are small, beyond a year, beyond the supported range, or within 9 of: the distance to either end of the supported range, the distance to the first / last date chrono holds, the largest day count a duration holds (106 751 991 167), i64::MAX, 2^31, 2^32, 2^53, 2^62 — compared with the reference model, which decides such a range as one interval by integer arithmetic on day numbers, on the first and last two days of the range, the days around both ends before and after the offsets, and 8 drawn days; non-trivial = an offset beyond 40 days",
                f: far_offsets,
                text_f: Some(semantics_text),
                cases_quick: 30_000,
                cases_thorough: 300_000,
                max_choices: 120,
            },
            SubCheck {
                name: "sweep",
                rule: "generated 1-2 rule expression evaluated on EVERY day 1900-01-01..9999-12-31 (2 958 465 days) against the reference model; non-trivial = the rule's day selector applied on at least one day",
                f: sweep,
                text_f: None,
                cases_quick: 0,
                cases_thorough: 192,
                max_choices: 200,
            },
        ],
        extra: Some(extra),
        assumptions: vec![
            "the reference model (harness/src/model.rs, DESIGN.md section 2) is the documented semantics; it is written from the property statement, the README, the OSM specification and the library's own tests, and shares no code with /repo",
            "expressions outside the decided domain (carve-outs U1..U10 of DESIGN.md 2.4) are skipped and counted under `excluded`",
            "sun events use the documented defaults (no coordinates in this check; C11 covers coordinates)",
        ],
    }
}
