//! C15 — CompactCalendar is a faithful set of dates, also across serialization.
//!
//! Stateful / model-based: a generated history of operations is applied to the calendar and to a
//! `BTreeSet<NaiveDate>`; every observation is compared step by step.

use std::collections::BTreeSet;
use std::ops::Bound;

use chrono::{Datelike, Duration, NaiveDate};
use compact_calendar::{CompactCalendar, CompactMonth, CompactYear};

use crate::choice::Choices;
use crate::engine::Property;
use crate::runner::{Case, SubCheck, SubOutcome, Tier};
use crate::util::{par_enumerate, Acc};

/// Dates at and next to the first and last dates chrono represents (years -262143 and 262142).
fn gen_extreme_date(ch: &mut Choices) -> NaiveDate {
    let ymd = |y, m, d| NaiveDate::from_ymd_opt(y, m, d).unwrap();
    match ch.draw(12) {
        0 => NaiveDate::MAX,
        1 => NaiveDate::MIN,
        2 => NaiveDate::MAX.pred_opt().unwrap(),
        3 => NaiveDate::MIN.succ_opt().unwrap(),
        4 => ymd(262142, 1, 1),
        5 => ymd(262142, 6, 15),
        6 => ymd(262141, 12, 31),
        7 => ymd(-262143, 12, 31),
        8 => ymd(-262142, 1, 1),
        9 => ymd(262100, 2, 28),
        10 => ymd(262142 - ch.int(0, 3) as i32, 1 + ch.draw(12), 1 + ch.draw(28)),
        _ => ymd(-262143 + ch.int(0, 3) as i32, 1 + ch.draw(12), 1 + ch.draw(28)),
    }
}

fn gen_date(ch: &mut Choices, base: i32, stored: &BTreeSet<NaiveDate>) -> NaiveDate {
    if base == EXTREME_BASE && ch.chance(50) {
        return gen_extreme_date(ch);
    }
    let base = if base == EXTREME_BASE { 2000 } else { base };
    // relative to an already stored date (duplicates, neighbours, year edges)
    if !stored.is_empty() && ch.chance(35) {
        let idx = ch.draw(stored.len().min(60000) as u32) as usize;
        let d = *stored.iter().nth(idx).unwrap();
        let cand = match ch.draw(8) {
            0 => Some(d),
            1 => d.succ_opt(),
            2 => d.pred_opt(),
            3 => NaiveDate::from_ymd_opt(d.year(), 12, 31),
            4 => NaiveDate::from_ymd_opt(d.year() + 1, 1, 1),
            5 => NaiveDate::from_ymd_opt(d.year() - 1, 12, 31),
            6 => d.checked_add_signed(Duration::days(ch.int(1, 800))),
            _ => d.checked_sub_signed(Duration::days(ch.int(1, 800))),
        };
        if let Some(c) = cand {
            return c;
        }
    }
    let year = match ch.weighted(&[50, 12, 12, 8, 8, 5, 5]) {
        0 => base + ch.int(0, 3) as i32,
        1 => base - ch.int(1, 40) as i32,
        2 => base + ch.int(4, 40) as i32,
        3 => base - ch.int(41, 3000) as i32,
        4 => base + ch.int(41, 3000) as i32,
        5 => -(ch.int(0, 4000) as i32),
        _ => ch.int(-1, 1) as i32,
    };
    let month = ch.pick(&[1u32, 2, 12, 6, 3, 4, 5, 7, 8, 9, 10, 11]);
    let day = match ch.draw(7) {
        0 => 1,
        1 => 31,
        2 => 30,
        3 => 29,
        4 => 28,
        _ => 1 + ch.draw(28),
    };
    (0..4)
        .find_map(|k| NaiveDate::from_ymd_opt(year, month, day - k))
        .expect("valid date")
}

/// A reader handing out its bytes in chunks of `chunk` at most, and in chunks ending at multiples
/// of `block` (like a buffered reader refilling): `Read::read` may legitimately return fewer bytes
/// than asked for.
struct Dribble<'a> {
    data: &'a [u8],
    pos: usize,
    chunk: usize,
    block: usize,
}

impl std::io::Read for Dribble<'_> {
    fn read(&mut self, buf: &mut [u8]) -> std::io::Result<usize> {
        let to_block_end = self.block - self.pos % self.block;
        let n = buf.len().min(self.chunk).min(to_block_end).min(self.data.len() - self.pos);
        buf[..n].copy_from_slice(&self.data[self.pos..self.pos + n]);
        self.pos += n;
        Ok(n)
    }
}

fn first_after_model(set: &BTreeSet<NaiveDate>, q: NaiveDate) -> Option<NaiveDate> {
    set.range((Bound::Excluded(q), Bound::Unbounded)).next().copied()
}

fn compare_all(cal: &CompactCalendar, set: &BTreeSet<NaiveDate>, hist: &str) -> Result<(), String> {
    if cal.count() as usize != set.len() {
        return Err(format!("count() = {} but {} dates were inserted; history: {hist}", cal.count(), set.len()));
    }
    let got: Vec<NaiveDate> = cal.iter().collect();
    let exp: Vec<NaiveDate> = set.iter().copied().collect();
    if got != exp {
        return Err(format!("iter() = {got:?}, expected {exp:?}; history: {hist}"));
    }
    Ok(())
}

/// Marker value of `base` selecting the generator of extreme dates.
const EXTREME_BASE: i32 = i32::MIN;

/// Histories over calendars holding the first / last representable dates (a calendar holding both
/// spans 524 286 years, 25 MB): fewer and shorter than the ordinary histories.
/// Calendars holding tens of thousands of dates (every day, or every day of some months, over 100-720 years; sizes
/// bracketing 32 768 / 65 536 / 131 072 dates): count, iteration, membership at the ends, first_after across the
/// whole span and a serialization round trip (S-C15-k sums the per-year counts in a `u16`).
fn dense_large(ch: &mut Choices, case: &mut Case) -> Result<(), String> {
    let years = [89i32, 90, 179, 180, 181, 359, 360, 720][ch.draw(8) as usize];
    let first_year = [1900i32, 1, -400, 2000, -1000][ch.draw(5) as usize];
    let months: &[u32] = [&[1u32, 2, 3, 4, 5, 6, 7, 8, 9, 10, 11, 12][..], &[1, 2][..], &[2, 7, 12][..]][ch.weighted(&[60, 20, 20])];
    let mut cal = CompactCalendar::default();
    let mut model: Vec<NaiveDate> = Vec::new();
    let mut d = NaiveDate::from_ymd_opt(first_year, 1, 1).unwrap();
    let end = NaiveDate::from_ymd_opt(first_year + years, 1, 1).unwrap();
    while d < end {
        if months.contains(&d.month()) {
            cal.insert(d);
            model.push(d);
        }
        d = d.succ_opt().unwrap();
    }
    case.key = format!("every day of months {months:?} of {years} years from {first_year}: {} dates", model.len());
    case.units = model.len() as u64;
    case.nontrivial = model.len() >= 65_536;
    case.label(match model.len() {
        0..=32_767 => "fewer_than_32768_dates",
        32_768..=65_535 => "32768_to_65535_dates",
        _ => "65536_dates_or_more",
    });
    if cal.count() as usize != model.len() {
        return Err(format!("count() = {} but {} dates were inserted ({})", cal.count(), model.len(), case.key));
    }
    if cal.iter().count() != model.len() || !cal.iter().eq(model.iter().copied()) {
        return Err(format!("iter() does not yield the {} inserted dates in order ({})", model.len(), case.key));
    }
    for probe in [model[0], model[model.len() - 1], model[model.len() / 2]] {
        if !cal.contains(probe) {
            return Err(format!("contains({probe}) is false ({})", case.key));
        }
    }
    if cal.first_after(model[0].pred_opt().unwrap()) != Some(model[0]) || cal.first_after(model[model.len() - 1]).is_some() {
        return Err(format!("first_after at the ends of the calendar is wrong ({})", case.key));
    }
    let mut bytes = Vec::new();
    cal.serialize(&mut bytes).map_err(|e| format!("serialize failed: {e}"))?;
    let back = CompactCalendar::deserialize(&mut bytes.as_slice()).map_err(|e| format!("deserialize failed: {e} ({})", case.key))?;
    if back != cal || back.count() as usize != model.len() {
        return Err(format!("the calendar read back differs or counts {} dates instead of {} ({})", back.count(), model.len(), case.key));
    }
    Ok(())
}

fn history_extremes(ch: &mut Choices, case: &mut Case) -> Result<(), String> {
    history_with(ch, case, EXTREME_BASE, 14)
}

fn history(ch: &mut Choices, case: &mut Case) -> Result<(), String> {
    let base = 1990 + ch.int(0, 60) as i32;
    history_with(ch, case, base, 60)
}

fn history_with(ch: &mut Choices, case: &mut Case, base: i32, max_ops: u32) -> Result<(), String> {
    let mut cal = CompactCalendar::default();
    let mut set: BTreeSet<NaiveDate> = BTreeSet::new();
    let mut order: Vec<NaiveDate> = Vec::new();
    let mut hist = String::new();
    let n_ops = 1 + ch.draw(max_ops);
    let mut cross_year = false;
    let mut streams = 0;
    for _ in 0..n_ops {
        match ch.weighted(&[40, 12, 25, 5, 5, 5, 8]) {
            0 => {
                let d = gen_date(ch, base, &set);
                let was_front = set.first().is_some_and(|f| d.year() < f.year());
                let was_back = set.last().is_some_and(|l| d.year() > l.year());
                let exp_new = set.insert(d);
                let got_new = cal.insert(d);
                order.push(d);
                hist.push_str(&format!("insert({d}); "));
                if was_front {
                    case.label("window_grows_front");
                }
                if was_back {
                    case.label("window_grows_back");
                }
                if d.year() < 0 {
                    case.label("negative_year");
                }
                if d.year() == 262142 {
                    case.label("last_representable_year");
                }
                if d.year() == -262143 {
                    case.label("first_representable_year");
                }
                if d.day() == 31 {
                    case.label("day31");
                }
                if !exp_new {
                    case.label("duplicate_insert");
                }
                if got_new != exp_new {
                    return Err(format!("insert({d}) returned {got_new}, expected {exp_new}; history: {hist}"));
                }
                if !cal.contains(d) {
                    return Err(format!("contains({d}) is false right after insert; history: {hist}"));
                }
            }
            1 => {
                let q = gen_date(ch, base, &set);
                hist.push_str(&format!("contains({q}); "));
                if cal.contains(q) != set.contains(&q) {
                    return Err(format!("contains({q}) = {}, expected {}; history: {hist}", cal.contains(q), set.contains(&q)));
                }
            }
            2 => {
                let q = gen_date(ch, base, &set);
                let exp = first_after_model(&set, q);
                let got = cal.first_after(q);
                hist.push_str(&format!("first_after({q}); "));
                if exp.is_some_and(|e| e.year() != q.year()) {
                    cross_year = true;
                    case.label("first_after_crosses_year");
                }
                if set.first().is_some_and(|f| q.year() < f.year()) || set.last().is_some_and(|l| q.year() > l.year()) {
                    case.label("query_outside_span");
                }
                if got != exp {
                    return Err(format!("first_after({q}) = {got:?}, expected {exp:?}; history: {hist}"));
                }
            }
            3 => {
                hist.push_str("iter/count; ");
                compare_all(&cal, &set, &hist)?;
            }
            4 => {
                // equality is set equality: rebuild from a permutation, and from a strict subset
                let mut perm = order.clone();
                let n = perm.len();
                for i in (1..n).rev() {
                    let j = ch.draw(i as u32 + 1) as usize;
                    perm.swap(i, j);
                }
                // collected through iterators of different shapes (exact size, unknown lower bound, flattened, chained):
                // `collect()` is a sequence of insertions whatever the iterator says about its length
                let shape = ch.draw(6);
                let other: CompactCalendar = match shape {
                    0 => perm.iter().copied().collect(),
                    1 => perm.iter().copied().filter(|_| true).collect(),
                    2 => {
                        let mut rest = perm.clone();
                        rest.reverse();
                        std::iter::from_fn(|| rest.pop()).collect()
                    }
                    3 => perm.chunks(2).flat_map(|c| c.to_vec()).collect(),
                    4 => perm.iter().copied().take_while(|_| true).chain(std::iter::empty()).collect(),
                    _ => perm.iter().copied().scan((), |_, d| Some(d)).collect(),
                };
                hist.push_str(&format!("eq(permutation collected through iterator shape {shape}); "));
                if other.count() as usize != set.len() || set.iter().any(|d| !other.contains(*d)) {
                    return Err(format!("calendar collected from the same dates through iterator shape {shape} holds {} dates instead of {}; history: {hist}", other.count(), set.len()));
                }
                if other != cal {
                    return Err(format!("calendar built from a permutation of the same insertions is not equal; history: {hist} permutation: {perm:?}"));
                }
                if let Some(missing) = set.iter().nth(ch.draw(set.len().max(1) as u32) as usize).copied() {
                    let smaller: CompactCalendar = set.iter().copied().filter(|d| *d != missing).collect();
                    if smaller == cal {
                        return Err(format!("calendar without {missing} compares equal; history: {hist}"));
                    }
                    if smaller.count() as usize != set.len() - 1 || smaller.contains(missing) {
                        return Err(format!("calendar collected from a filtered iterator (all dates but {missing}) holds {} dates instead of {}; history: {hist}", smaller.count(), set.len() - 1));
                    }
                }
                case.label("eq_permutation");
            }
            5 => {
                let mut buf = Vec::new();
                cal.serialize(&mut buf).map_err(|e| format!("serialize failed: {e}"))?;
                let mut rd = buf.as_slice();
                let back = CompactCalendar::deserialize(&mut rd).map_err(|e| format!("deserialize failed: {e}; history: {hist}"))?;
                hist.push_str("serialize/deserialize; ");
                if back != cal || !rd.is_empty() {
                    return Err(format!("serialize/deserialize round trip differs or leaves {} bytes; history: {hist}", rd.len()));
                }
                compare_all(&back, &set, &hist)?;
                case.label("roundtrip");
            }
            _ => {
                // stream of 1..4 calendars: this one, prefixes of the history, an empty one
                let k = 1 + ch.draw(4) as usize;
                let mut cals: Vec<CompactCalendar> = Vec::new();
                for i in 0..k {
                    let c: CompactCalendar = match (i + ch.draw(3) as usize) % 3 {
                        0 => cal.clone(),
                        1 => order.iter().take(order.len() / 2).copied().collect(),
                        _ => CompactCalendar::default(),
                    };
                    cals.push(c);
                }
                let mut buf = Vec::new();
                let mut offsets = Vec::new();
                for c in &cals {
                    c.serialize(&mut buf).map_err(|e| format!("serialize failed: {e}"))?;
                    offsets.push(buf.len());
                }
                let total = buf.len();
                // the same stream through a reader that returns short reads
                let (chunk, block) = (ch.pick(&[usize::MAX, 1, 3, 7, 11, 13, 64]), ch.pick(&[usize::MAX, 8192, 16, 20, 100, 12, 4]));
                let mut dribble = Dribble { data: &buf, pos: 0, chunk, block };
                for (i, c) in cals.iter().enumerate() {
                    let back = CompactCalendar::deserialize(&mut dribble).map_err(|e| format!("deserialize #{i} of a stream failed through a reader returning at most {chunk} bytes per call, blocks of {block}: {e}; history: {hist}stream({k})"))?;
                    if back != *c || dribble.pos != offsets[i] {
                        return Err(format!("calendar #{i} read back from a stream of {k} through a reader returning at most {chunk} bytes per call (blocks of {block}) differs, or {} bytes were consumed instead of {}; history: {hist}stream({k})", dribble.pos, offsets[i]));
                    }
                }
                let mut rd = buf.as_slice();
                hist.push_str(&format!("stream({k}); "));
                for (i, c) in cals.iter().enumerate() {
                    let back = CompactCalendar::deserialize(&mut rd).map_err(|e| format!("deserialize #{i} of stream failed: {e}; history: {hist}"))?;
                    if back != *c {
                        return Err(format!("calendar #{i} read back from a stream of {k} differs; history: {hist}"));
                    }
                    if total - rd.len() != offsets[i] {
                        return Err(format!("deserialize #{i} consumed {} bytes, {} were written; history: {hist}", total - rd.len(), offsets[i]));
                    }
                }
                if !rd.is_empty() {
                    return Err(format!("{} bytes left after reading the stream; history: {hist}", rd.len()));
                }
                streams += 1;
                case.label("stream");
            }
        }
    }
    compare_all(&cal, &set, &hist)?;
    let years: BTreeSet<i32> = set.iter().map(|d| d.year()).collect();
    case.nontrivial = years.len() >= 2 && (cross_year || streams > 0);
    case.units = u64::from(n_ops);
    case.key = hist;
    Ok(())
}

fn year_history(ch: &mut Choices, case: &mut Case) -> Result<(), String> {
    let mut year = CompactYear::default();
    let mut set: BTreeSet<(u32, u32)> = BTreeSet::new();
    let mut hist = String::new();
    let n_ops = 1 + ch.draw(40);
    let md = |ch: &mut Choices| -> (u32, u32) {
        let m = ch.pick(&[1u32, 12, 2, 6, 11, 3, 4, 5, 7, 8, 9, 10]);
        let d = match ch.draw(5) {
            0 => 1,
            1 => 31,
            2 => 30,
            _ => 1 + ch.draw(31),
        };
        (m, d)
    };
    for _ in 0..n_ops {
        match ch.weighted(&[40, 15, 30, 10, 5]) {
            0 => {
                let (m, d) = md(ch);
                hist.push_str(&format!("insert({m},{d}); "));
                let exp = set.insert((m, d));
                let got = year.insert(m, d);
                if got != exp {
                    return Err(format!("CompactYear::insert({m},{d}) = {got}, expected {exp}; {hist}"));
                }
            }
            1 => {
                let (m, d) = md(ch);
                if year.contains(m, d) != set.contains(&(m, d)) {
                    return Err(format!("CompactYear::contains({m},{d}) wrong; {hist}"));
                }
            }
            2 => {
                let (m, d) = md(ch);
                let exp = set.range((Bound::Excluded((m, d)), Bound::Unbounded)).next().copied();
                let got = year.first_after(m, d);
                if exp.is_some_and(|e| e.0 != m) {
                    case.label("crosses_month");
                    case.nontrivial = true;
                }
                if got != exp {
                    return Err(format!("CompactYear::first_after({m},{d}) = {got:?}, expected {exp:?}; {hist}"));
                }
            }
            3 => {
                let got: Vec<_> = year.iter().collect();
                let exp: Vec<_> = set.iter().copied().collect();
                if got != exp || year.count() as usize != set.len() || year.first() != set.first().copied() {
                    return Err(format!("CompactYear iter/count/first differ: {got:?} vs {exp:?}; {hist}"));
                }
            }
            _ => {
                let mut buf = Vec::new();
                year.serialize(&mut buf).map_err(|e| e.to_string())?;
                buf.extend_from_slice(&[0xAA, 0x55]);
                let mut rd = buf.as_slice();
                let back = CompactYear::deserialize(&mut rd).map_err(|e| e.to_string())?;
                if back != year || rd != [0xAA, 0x55] {
                    return Err(format!("CompactYear serialize/deserialize differs or consumes the wrong number of bytes; {hist}"));
                }
            }
        }
    }
    case.key = hist;
    Ok(())
}

/// Day sets enumerated for CompactMonth: every set with at most 3 days and every complement.
fn month_sets() -> Vec<u32> {
    let mut v = vec![0u32];
    for a in 0..31 {
        v.push(1 << a);
        for b in a + 1..31 {
            v.push((1 << a) | (1 << b));
            for c in b + 1..31 {
                v.push((1 << a) | (1 << b) | (1 << c));
            }
        }
    }
    let full = (1u32 << 31) - 1;
    let comps: Vec<u32> = v.iter().map(|s| full & !s).collect();
    v.extend(comps);
    v
}

fn month_exhaustive() -> SubOutcome {
    let sets = month_sets();
    let n = sets.len() as u64;
    par_enumerate(
        "month_exhaustive",
        "exhaustive: every CompactMonth holding <= 3 days or >= 28 days (9 984 sets, built by insert in increasing and decreasing order) x all 31 query days: insert result, contains, first, first_after, iter, count, serialize/deserialize vs a u32 set model; non-trivial = non-empty set",
        n,
        move |i, acc: &mut Acc| {
            let bits = sets[i as usize];
            let days: Vec<u32> = (1..=31).filter(|d| bits & (1 << (d - 1)) != 0).collect();
            let mut m = CompactMonth::default();
            let mut rev = CompactMonth::default();
            for d in &days {
                if !m.insert(*d) {
                    return acc.fail("month_text", format!("{bits}"), format!("insert({d}) of a new day returned false"));
                }
            }
            for d in days.iter().rev() {
                rev.insert(*d);
            }
            acc.case(bits != 0);
            if i % 997 == 0 {
                acc.sample(|| format!("CompactMonth {days:?}"));
            }
            let fail = |acc: &mut Acc, msg: String| acc.fail("month_text", format!("{bits}"), format!("CompactMonth {days:?}: {msg}"));
            if m != rev {
                return fail(acc, "insertion order changes equality".into());
            }
            if m.iter().collect::<Vec<_>>() != days || m.count() as usize != days.len() || m.first() != days.first().copied() {
                return fail(acc, format!("iter/count/first = {:?}/{}/{:?}", m.iter().collect::<Vec<_>>(), m.count(), m.first()));
            }
            for q in 1..=31u32 {
                if m.contains(q) != days.contains(&q) {
                    return fail(acc, format!("contains({q}) = {}", m.contains(q)));
                }
                let exp = days.iter().copied().find(|d| *d > q);
                if m.first_after(q) != exp {
                    return fail(acc, format!("first_after({q}) = {:?}, expected {exp:?}", m.first_after(q)));
                }
                let mut again = m;
                if again.insert(q) == days.contains(&q) {
                    return fail(acc, format!("insert({q}) reports the wrong novelty"));
                }
            }
            let mut buf = Vec::new();
            m.serialize(&mut buf).unwrap();
            let mut rd = buf.as_slice();
            if CompactMonth::deserialize(&mut rd).ok() != Some(m) || !rd.is_empty() || buf.len() != 4 {
                fail(acc, "serialize/deserialize round trip".into());
            }
        },
    )
}

fn month_text(text: &str, case: &mut Case) -> Result<(), String> {
    // replays a single enumerated set
    case.key = text.to_string();
    let bits: u32 = text.trim().parse().map_err(|_| "bad replay text".to_string())?;
    let days: Vec<u32> = (1..=31).filter(|d| bits & (1 << (d - 1)) != 0).collect();
    let mut m = CompactMonth::default();
    for d in &days {
        m.insert(*d);
    }
    for q in 1..=31u32 {
        let exp = days.iter().copied().find(|d| *d > q);
        if m.contains(q) != days.contains(&q) || m.first_after(q) != exp {
            return Err(format!("CompactMonth {days:?}: contains/first_after({q}) wrong"));
        }
    }
    if m.iter().collect::<Vec<_>>() != days || m.count() as usize != days.len() {
        return Err(format!("CompactMonth {days:?}: iter/count wrong"));
    }
    Ok(())
}

fn extra(_tier: Tier, _seed: u64) -> Vec<SubOutcome> {
    vec![month_exhaustive()]
}

pub fn property() -> Property {
    Property {
        id: "C15",
        subs: vec![
            SubCheck {
                name: "history",
                rule: "model-based histories of up to 60 operations (insert / contains / first_after / iter+count / equality with a calendar rebuilt from a permutation and with a strict subset / serialize+deserialize / concatenated streams of 1-4 calendars with byte accounting, read from a slice and through a reader returning short reads: at most 1..64 bytes per call, chunks ending at block limits) against BTreeSet<NaiveDate>; dates: clustered years, +-3000 years apart, negative years, day 31, Dec 31 / Jan 1, neighbours of stored dates, queries outside the stored span; non-trivial = at least two stored years and (a first_after answer in another year than the query, or a stream)",
                f: history,
                text_f: None,
                cases_quick: 40_000,
                cases_thorough: 1_000_000,
                max_choices: 420,
            },
            SubCheck {
                name: "dense_large",
                rule: "calendars holding every day (or every day of 2-3 months) of 89-720 years (up to 263 000 dates; sizes bracketing 32 768 / 65 536 / 131 072): count(), ordered iteration, membership and first_after at the ends, serialization round trip against the inserted list; non-trivial = 65 536 dates or more",
                f: dense_large,
                text_f: None,
                cases_quick: 64,
                cases_thorough: 512,
                max_choices: 6,
            },
            SubCheck {
                name: "history_extremes",
                rule: "the same histories (1-14 operations) over dates of which half lie in or next to the first / last years chrono represents (-262143, 262142; a calendar holding both spans 524 286 years); non-trivial = as above",
                f: history_extremes,
                text_f: None,
                cases_quick: 400,
                cases_thorough: 8_000,
                max_choices: 200,
            },
            SubCheck {
                name: "year_history",
                rule: "model-based histories on CompactYear (insert / contains / first_after / iter+count+first / serialize with trailing bytes) against BTreeSet<(month, day)>, days 1..=31 in every month; non-trivial = a first_after answer in a later month",
                f: year_history,
                text_f: None,
                cases_quick: 60_000,
                cases_thorough: 400_000,
                max_choices: 200,
            },
            SubCheck {
                name: "month_text",
                rule: "",
                f: |_, _| Ok(()),
                text_f: Some(month_text),
                cases_quick: 0,
                cases_thorough: 0,
                max_choices: 1,
            },
        ],
        extra: Some(extra),
        assumptions: vec![
            "std BTreeSet is the reference model; chrono::NaiveDate ordering is trusted",
            "year distances are bounded to a few thousand years per history (memory), so window growth is exercised up to that size",
        ],
    }
}
