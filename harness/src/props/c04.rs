//! C04 — totality: no input makes the library panic or run unboundedly.
//!
//! One predicate ("returns normally within the work bound"), several generators: the sentence
//! generator with hostile values, near-valid mutations of valid sentences, token soups, and (in
//! /verif/fuzz) coverage-guided byte-level fuzzing of the same entry point.

use chrono::{Datelike, Duration, NaiveDate, NaiveDateTime, TimeZone, Utc};
use opening_hours::localization::{Coordinates, Localize, NoLocation, TzLocation};
use opening_hours::{verif_hooks, Context, ContextHolidays, OpeningHours};

use crate::choice::Choices;
use crate::engine::Property;
use crate::gen::ctx::gen_holidays;
use crate::gen::expr::{gen_expr, Cfg};
use crate::gen::labels::label_expr;
use crate::runner::{guard, Case, SubCheck};

/// The supported range has 2 958 465 days: one public call may evaluate each of them once (plus
/// the day after every matching day); anything beyond is unbounded work.
pub const FULL_WORK_BOUND: u64 = 6_200_000;
/// Light mode: calls needing more than this are skipped (counted), not judged.
pub const LIGHT_CAP: u64 = 6_000;

#[derive(Clone, Copy, PartialEq)]
pub enum Mode {
    /// Cap each call at `LIGHT_CAP`; exceeding it is "too far", not a failure.
    Light,
    /// Like `Light` with a cap of 300 schedules (expressions with hundreds of rules).
    Tiny,
    /// Like `Light` with a cap of 800 schedules (libFuzzer target: throughput matters).
    Fuzz,
    /// Cap each call at `FULL_WORK_BOUND`; exceeding it is a violation (unbounded work).
    Full,
}

pub struct Tally {
    pub calls: u64,
    pub too_far: u64,
}

fn call<T>(mode: Mode, tally: &mut Tally, what: &str, f: impl FnOnce() -> T) -> Result<Option<T>, String> {
    verif_hooks::reset();
    verif_hooks::set_limit(Some(match mode {
        Mode::Light => LIGHT_CAP,
        Mode::Tiny => 300,
        Mode::Fuzz => 800,
        Mode::Full => FULL_WORK_BOUND,
    }));
    let r = guard(f);
    verif_hooks::set_limit(Some(crate::runner::DEFAULT_WORK_LIMIT));
    tally.calls += 1;
    match r {
        Ok(v) => Ok(Some(v)),
        Err(p) if p.contains(verif_hooks::LIMIT_MARKER) => match mode {
            Mode::Light | Mode::Tiny | Mode::Fuzz => {
                tally.too_far += 1;
                Ok(None)
            }
            Mode::Full => Err(format!("{what} evaluated more than {FULL_WORK_BOUND} day schedules (the supported range has 2 958 465 days): unbounded work")),
        },
        Err(p) => Err(format!("{what} panicked: {p}")),
    }
}

pub fn gen_hostile_instant(ch: &mut Choices) -> NaiveDateTime {
    let d = |y, m, dd| NaiveDate::from_ymd_opt(y, m, dd).unwrap();
    match ch.weighted(&[35, 15, 15, 20, 15]) {
        0 => d(2020 + ch.int(0, 8) as i32, 1 + ch.draw(12), 1 + ch.draw(28)).and_hms_opt(ch.draw(24), ch.draw(60), ch.draw(60)).unwrap(),
        1 => d(9990 + ch.int(0, 9) as i32, 1 + ch.draw(12), 1 + ch.draw(28)).and_hms_opt(ch.draw(24), ch.draw(60), 0).unwrap(),
        2 => ch.pick(&[
            NaiveDateTime::MIN,
            NaiveDateTime::MAX,
            NaiveDateTime::MIN + Duration::minutes(1),
            NaiveDateTime::MAX - Duration::minutes(1),
            NaiveDateTime::MAX - Duration::seconds(59),
            NaiveDateTime::MIN + Duration::days(1),
            NaiveDateTime::MAX - Duration::days(1),
        ]),
        3 => {
            let y = ch.pick(&[-262142, -100000, -1, 0, 1, 1899, 1900, 9999, 10000, 10001, 99999, 262141]);
            d(y, 1 + ch.draw(12), 1 + ch.draw(28)).and_hms_opt(ch.draw(24), ch.draw(60), 0).unwrap()
        }
        _ => ch.pick(&[
            d(1899, 12, 31).and_hms_opt(23, 59, 59).unwrap(),
            d(1900, 1, 1).and_hms_opt(0, 0, 0).unwrap(),
            d(9999, 12, 31).and_hms_opt(23, 59, 0).unwrap(),
            d(9999, 12, 31).and_hms_opt(23, 59, 59).unwrap(),
            d(10000, 1, 1).and_hms_opt(0, 0, 0).unwrap(),
            d(2020, 2, 29).and_hms_opt(12, 0, 0).unwrap(),
        ]),
    }
}

pub fn gen_coords(ch: &mut Choices) -> Coordinates {
    let lat = match ch.weighted(&[40, 20, 20, 20]) {
        0 => ch.int(-9000, 9000) as f64 / 100.0,
        1 => ch.pick(&[90.0, -90.0, 89.999999, -89.999999, 66.6, -66.6, 0.0, -0.0]),
        2 => ch.pick(&[f64::MIN_POSITIVE, -f64::MIN_POSITIVE, 5e-324, 1e-300, 78.2, -77.8, 69.6]),
        _ => ch.int(-90000, 90000) as f64 / 1000.0,
    };
    let lon = match ch.weighted(&[40, 30, 30]) {
        0 => ch.int(-18000, 18000) as f64 / 100.0,
        1 => ch.pick(&[180.0, -180.0, 179.999999, -179.999999, 0.0, -0.0, 5e-324]),
        _ => ch.int(-180000, 180000) as f64 / 1000.0,
    };
    Coordinates::new(lat, lon).expect("generated coordinates are valid")
}

fn gen_bound(ch: &mut Choices) -> Option<Duration> {
    match ch.weighted(&[64, 6, 8, 8, 8, 4, 2]) {
        0 => None,
        1 => Some(Duration::zero()),
        // nonsensical but representable: a negative bound
        6 => Some(ch.pick(&[Duration::days(-2), Duration::seconds(-1), Duration::MIN, Duration::days(-400), Duration::hours(-25)])),
        2 => Some(Duration::seconds(ch.int(1, 86400))),
        3 => Some(Duration::days(ch.int(1, 400))),
        4 => Some(Duration::days(ch.int(400, 36600))),
        // any representable bound
        _ => Some(ch.pick(&[Duration::MAX, Duration::MAX - Duration::days(1), Duration::MAX - Duration::hours(23), Duration::days(100_000_000), Duration::milliseconds(i64::MAX / 2)])),
    }
}

/// Zones whose clock once jumped by (almost) a whole day, with the UTC instant of the jump: the
/// longest gaps of the tz database within 1900..2100.
const GIANT_GAPS: [(chrono_tz::Tz, (i32, u32, u32, u32)); 8] = [
    (chrono_tz::Pacific::Apia, (2011, 12, 30, 10)),
    (chrono_tz::Pacific::Fakaofo, (2011, 12, 30, 11)),
    (chrono_tz::Pacific::Kwajalein, (1993, 8, 21, 12)),
    (chrono_tz::Pacific::Kiritimati, (1994, 12, 31, 10)),
    (chrono_tz::Pacific::Kanton, (1994, 12, 31, 11)),
    (chrono_tz::Antarctica::Casey, (1969, 1, 1, 0)),
    (chrono_tz::Asia::Anadyr, (1982, 4, 1, 0)),
    (chrono_tz::America::Metlakatla, (2015, 11, 1, 10)),
];

/// Evaluate an expression in one context at the given instants.
fn exercise_ctx<L: Localize>(
    mode: Mode,
    tally: &mut Tally,
    text: &str,
    oh: &OpeningHours<L>,
    ctx_desc: &str,
    to_dt: &dyn Fn(NaiveDateTime) -> L::DateTime,
    instants: &[NaiveDateTime],
    window: Duration,
) -> Result<(), String>
where
    L::DateTime: std::fmt::Debug + PartialOrd + Clone,
{
    for t in instants {
        let w = |op: &str| format!("`{text}` [{ctx_desc}]: {op} at {t}");
        call(mode, tally, &w("schedule_at"), || oh.schedule_at(t.date()).into_iter().count())?;
        call(mode, tally, &w("state"), || oh.state(to_dt(*t)))?;
        call(mode, tally, &w("is_open/is_closed/is_unknown"), || (oh.is_open(to_dt(*t)), oh.is_closed(to_dt(*t)), oh.is_unknown(to_dt(*t))))?;
        call(mode, tally, &w("next_change"), || oh.next_change(to_dt(*t)))?;
        let to = t.checked_add_signed(window).unwrap_or(NaiveDateTime::MAX);
        // bounded work also means progress: an iterator that yields the very same non-empty
        // interval (bounds and kind) twice in a row is stuck, and never ends for the caller who
        // consumes the range. (Empty intervals are legitimate where a stretch of local time does
        // not exist — Pacific/Apia skipped 2011-12-30 — and under an interval-size bound every
        // "too long" interval ends at the end of the window, so bounds alone may repeat.)
        let progress = call(mode, tally, &w(&format!("iter_range(.., {to})")), || {
            let starts: Vec<_> = oh.iter_range(to_dt(*t), to_dt(to)).take(50).map(|i| (i.range.start.clone(), i.range.end.clone(), i.kind)).collect();
            starts.windows(2).position(|p| p[0].0 < p[0].1 && p[1].0 == p[0].0 && p[1].1 == p[0].1 && p[1].2 == p[0].2).map(|k| format!("{:?} then {:?}", starts[k], starts[k + 1]))
        })?;
        if let Some(Some(stuck)) = progress {
            return Err(format!("{}: the iterator does not advance ({stuck}): unbounded work for a caller consuming the range", w(&format!("iter_range(.., {to})"))));
        }
        call(mode, tally, &w("iter_from"), || oh.iter_from(to_dt(*t)).take(8).count())?;
    }
    Ok(())
}

/// The whole totality predicate for one accepted expression.
pub fn exercise(
    mode: Mode,
    text: &str,
    ch: &mut Choices,
    holidays: ContextHolidays,
    case: &mut Case,
) -> Result<Tally, String> {
    let mut tally = Tally { calls: 0, too_far: 0 };
    let parsed = call(Mode::Full, &mut tally, &format!("parse(`{text}`)"), || OpeningHours::parse(text))?.unwrap();
    let Ok(oh) = parsed else {
        case.label("rejected");
        return Ok(tally);
    };
    case.label("accepted");
    // printing, reparsing, normalizing
    let printed = call(Mode::Full, &mut tally, &format!("`{text}`: to_string"), || oh.to_string())?.unwrap();
    call(Mode::Full, &mut tally, &format!("`{text}`: parse of its printed form `{printed}`"), || OpeningHours::parse(&printed).is_ok())?;
    let norm = call(Mode::Full, &mut tally, &format!("`{text}`: normalize"), || oh.normalize())?.unwrap();
    call(Mode::Full, &mut tally, &format!("`{text}`: to_string of the normal form"), || norm.to_string())?;
    call(Mode::Full, &mut tally, &format!("`{text}`: is_constant"), || opening_hours_syntax::parse(text).map(|e| e.is_constant()))?;

    let instants: Vec<NaiveDateTime> = (0..if mode == Mode::Full { 1 } else { 2 }).map(|_| gen_hostile_instant(ch)).collect();
    let window = match ch.weighted(&[40, 30, 20, 10]) {
        0 => Duration::days(ch.int(0, 40)),
        1 => Duration::minutes(ch.int(0, 3000)),
        2 => Duration::days(ch.int(40, 4000)),
        _ => Duration::days(3_000_000),
    };
    let bound = gen_bound(ch);
    let with_bound = |ctx: Context<NoLocation>| match bound {
        Some(b) => ctx.approx_bound_interval_size(b),
        None => ctx,
    };
    match ch.weighted(&[40, 25, 20, 15]) {
        0 => {
            let ctx = with_bound(Context::default().with_holidays(holidays));
            let oh = oh.with_context(ctx.clone());
            exercise_ctx(mode, &mut tally, text, &oh, &format!("no location, bound {bound:?}"), &|n| n, &instants, window)?;
            let norm = norm.with_context(ctx);
            exercise_ctx(mode, &mut tally, text, &norm, "normal form, no location", &|n| n, &instants[..1], window)?;
        }
        1 => {
            let mut tz = chrono_tz::TZ_VARIANTS[ch.draw(chrono_tz::TZ_VARIANTS.len() as u32) as usize];
            let in_tz = chrono_tz::TZ_VARIANTS[ch.draw(chrono_tz::TZ_VARIANTS.len() as u32) as usize];
            let mut instants = instants.clone();
            match ch.weighted(&[55, 20, 25]) {
                0 => {}
                // a few hours before one of the day-long gaps of the tz database
                1 => {
                    let (z, (y, m, d, h)) = ch.pick(&GIANT_GAPS);
                    tz = z;
                    instants[0] = NaiveDate::from_ymd_opt(y, m, d).unwrap().and_hms_opt(h, 0, 0).unwrap() - Duration::minutes(ch.int(0, 1800));
                    case.label("instant_before_a_day_long_gap");
                }
                // around an actual transition of the drawn zone
                _ => {
                    let y = 1900 + ch.int(0, 200) as i32;
                    let a = NaiveDate::from_ymd_opt(y, 1, 1).unwrap().and_hms_opt(0, 0, 0).unwrap();
                    let ts = crate::props::c09::transitions(tz, a, a + Duration::days(366));
                    if !ts.is_empty() {
                        instants[0] = ts[ch.draw(ts.len() as u32) as usize] + Duration::minutes(ch.int(-600, 120));
                        case.label("instant_near_a_zone_transition");
                    }
                }
            }
            let mut ctx = Context::default().with_holidays(holidays).with_locale(TzLocation::new(tz));
            if let Some(b) = bound {
                ctx = ctx.approx_bound_interval_size(b);
            }
            let oh = oh.with_context(ctx);
            case.label("timezone_context");
            exercise_ctx(mode, &mut tally, text, &oh, &format!("zone {tz}, input zone {in_tz}, bound {bound:?}"), &move |n| Utc.from_utc_datetime(&n).with_timezone(&in_tz), &instants, window)?;
        }
        2 => {
            let tz = chrono_tz::TZ_VARIANTS[ch.draw(chrono_tz::TZ_VARIANTS.len() as u32) as usize];
            let coords = gen_coords(ch);
            let mut ctx = Context::default().with_holidays(holidays).with_locale(TzLocation::new(tz).with_coords(coords));
            if let Some(b) = bound {
                ctx = ctx.approx_bound_interval_size(b);
            }
            let oh = oh.with_context(ctx);
            case.label("timezone_and_coordinates_context");
            exercise_ctx(mode, &mut tally, text, &oh, &format!("zone {tz}, coordinates {coords}, bound {bound:?}"), &move |n| Utc.from_utc_datetime(&n).with_timezone(&tz), &instants, window)?;
        }
        _ => {
            let coords = gen_coords(ch);
            let ctx = call(Mode::Full, &mut tally, &format!("Context::from_coords({coords})"), || Context::from_coords(coords))?.unwrap();
            let tz = *ctx.locale.get_timezone();
            let ctx = match bound {
                Some(b) => ctx.approx_bound_interval_size(b),
                None => ctx,
            };
            let oh = oh.with_context(ctx);
            case.label("from_coords_context");
            exercise_ctx(mode, &mut tally, text, &oh, &format!("from_coords({coords}) -> {tz}, bound {bound:?}"), &move |n| Utc.from_utc_datetime(&n).with_timezone(&tz), &instants, window)?;
        }
    }
    Ok(tally)
}

fn finish(case: &mut Case, tally: Tally) {
    case.units = tally.calls;
    if tally.too_far > 0 {
        case.label("some_calls_too_far_for_light_mode");
    }
}

fn mode_for(ch: &mut Choices, case: &mut Case) -> Mode {
    if ch.chance(1) {
        case.label("full_work_bound");
        Mode::Full
    } else {
        Mode::Light
    }
}

/// Generator 2: structured sentences with hostile values.
fn hostile(ch: &mut Choices, case: &mut Case) -> Result<(), String> {
    let mut mode = mode_for(ch, case);
    let base_year = ch.pick(&[2020, 2020, 9990, 1900]);
    let many_rules = ch.chance(1);
    if many_rules {
        mode = Mode::Tiny;
        case.label("hundreds_of_rules");
    }
    let cfg = Cfg { max_rules: if many_rules { 300 } else { 4 }, base_year, hostile: true, dense: ch.chance(30), ..Cfg::default() };
    let (ast, text) = gen_expr(ch, &cfg);
    case.key = if text.len() > 300 { format!("{}... ({} rules)", &text[..text.char_indices().nth(200).map(|x| x.0).unwrap_or(0)], ast.rules.len()) } else { text.clone() };
    label_expr(&ast, case);
    let holidays = gen_holidays(ch, base_year).holidays;
    let tally = exercise(mode, &text, ch, holidays, case)?;
    case.nontrivial = case.labels.contains(&"accepted");
    finish(case, tally);
    Ok(())
}

const MONTH_NAMES: [&str; 12] = ["Jan", "Feb", "Mar", "Apr", "May", "Jun", "Jul", "Aug", "Sep", "Oct", "Nov", "Dec"];
const WD_NAMES: [&str; 7] = ["Mo", "Tu", "We", "Th", "Fr", "Sa", "Su"];

/// Where date arithmetic runs out: day offsets are chosen so that the shifted date lands within
/// a few days of the first / last date chrono can represent, of the ends of the supported range,
/// or so that the offset itself sits next to a limit of the integer / duration types involved.
/// The expression is then evaluated in the year the offset was computed for (and its neighbours).
struct EdgeCase {
    text: String,
    instants: Vec<NaiveDateTime>,
    holiday: NaiveDate,
    target: &'static str,
}

fn gen_edge_case(ch: &mut Choices) -> EdgeCase {
    let year = ch.pick(&[2020, 2024, 2025, 2021, 1900, 9999, 2023]);
    let (m, d) = if ch.chance(50) { ch.pick(&[(1u32, 1u32), (12, 31), (2, 28), (6, 15), (3, 1), (1, 2)]) } else { (1 + ch.draw(12), 1 + ch.draw(28)) };
    let template = ch.draw(8);
    let anchor = if template == 6 { crate::model::easter(year) } else { NaiveDate::from_ymd_opt(year, m, d).unwrap() };
    let k = ch.int(0, 9);
    let ymd = |y, m, d| NaiveDate::from_ymd_opt(y, m, d).unwrap();
    let (target, name): (NaiveDate, &'static str) = match ch.weighted(&[30, 30, 8, 8, 8, 8, 8]) {
        0 => (NaiveDate::MAX - Duration::days(k), "last_representable_date"),
        1 => (NaiveDate::MIN + Duration::days(k), "first_representable_date"),
        2 => (ymd(9999, 12, 31) + Duration::days(k - 4), "end_of_supported_range"),
        3 => (ymd(1900, 1, 1) + Duration::days(k - 4), "start_of_supported_range"),
        4 => (ymd(0, 1, 1) + Duration::days(k - 4), "year_zero"),
        5 => (ymd(-1, 12, 31) - Duration::days(365 * 4 + k), "negative_years"),
        _ => (ymd(10000, 1, 1) + Duration::days(366 + k), "year_10001"),
    };
    let (mut n, mut name) = ((target - anchor).num_days(), name);
    if ch.chance(20) {
        // limits of the types the offset goes through
        const LIMITS: [i64; 8] = [i64::MAX, i64::MAX / 86_400_000, i64::MAX / 86_400, i32::MAX as i64, u32::MAX as i64, 1 << 31, 191_468_000, i64::MAX / 1_000_000_000 / 86_400];
        let l = ch.pick(&LIMITS);
        n = l.saturating_sub(k).max(1) * if ch.chance(50) { -1 } else { 1 };
        if l < i64::MAX - 9 && ch.chance(50) {
            n = (l + k) * n.signum();
        }
        name = "integer_or_duration_limit";
    }
    let off = |n: i64| format!(" {}{} days", if n < 0 { '-' } else { '+' }, n.unsigned_abs());
    let wd = if ch.chance(55) { format!("{}{}", if ch.chance(50) { '+' } else { '-' }, ch.pick(&WD_NAMES)) } else { String::new() };
    let mon = MONTH_NAMES[anchor.month0() as usize];
    let day = anchor.day();
    let (m2, d2) = (MONTH_NAMES[ch.draw(12) as usize], 1 + ch.draw(28));
    let body = match template {
        0 => format!("{mon} {day}{wd}{}", off(n)),
        1 => format!("{mon} {day}{wd}{}-{m2} {d2}", off(n)),
        2 => format!("{m2} {d2}-{mon} {day}{wd}{}", off(n)),
        3 => format!("{year} {mon} {day}{wd}{}", off(n)),
        // a weekday offset shifts the other way round: the matching day is `date - offset`
        4 => format!("{}[{}]{}", WD_NAMES[anchor.weekday().num_days_from_monday() as usize], ch.pick(&["1", "2", "-1", "1-5"]), off(-n)),
        5 => format!("PH{}", off(-n)),
        6 => format!("easter{wd}{}", off(n)),
        _ => format!("{mon} {day}{wd}{}-{mon} {day}{wd}{}", off(n), off(n.saturating_add(ch.int(-3, 3)))),
    };
    let prefix = ch.pick(&["", "", "24/7; ", "Mo-Fr 08:00-18:00; "]);
    let suffix = ch.pick(&["", " 10:00-12:00", " off", " 22:00-26:00 unknown"]);
    let mut instants = Vec::new();
    for _ in 0..3 {
        let date = match ch.weighted(&[30, 15, 15, 25, 15]) {
            0 => anchor,
            1 => ymd(year, 1, 1),
            2 => ymd(year, 12, 31),
            3 => ymd(year, 1, 1) + Duration::days(ch.int(0, 364)),
            _ => ymd((year + ch.int(-3, 3) as i32).clamp(1900, 9999), 1, 1) + Duration::days(ch.int(0, 364)),
        };
        instants.push(date.and_hms_opt(ch.draw(24), ch.draw(60), 0).unwrap());
    }
    EdgeCase { text: format!("{prefix}{body}{suffix}"), instants, holiday: anchor, target: name }
}

fn arith_edges(ch: &mut Choices, case: &mut Case) -> Result<(), String> {
    let e = gen_edge_case(ch);
    case.key = format!("{} @ {}", e.text, e.instants.iter().map(|t| t.to_string()).collect::<Vec<_>>().join(", "));
    edge_exercise(&e.text, &e.instants, e.holiday, case)?;
    case.label(e.target);
    case.nontrivial = case.labels.contains(&"accepted");
    Ok(())
}

fn edge_exercise(text: &str, instants: &[NaiveDateTime], holiday: NaiveDate, case: &mut Case) -> Result<(), String> {
    let mut tally = Tally { calls: 0, too_far: 0 };
    let parsed = call(Mode::Full, &mut tally, &format!("parse(`{text}`)"), || OpeningHours::parse(text))?.unwrap();
    let Ok(oh) = parsed else {
        case.label("rejected");
        return Ok(());
    };
    case.label("accepted");
    let printed = call(Mode::Full, &mut tally, &format!("`{text}`: to_string"), || oh.to_string())?.unwrap();
    call(Mode::Full, &mut tally, &format!("`{text}`: parse of its printed form `{printed}`"), || OpeningHours::parse(&printed).is_ok())?;
    let norm = call(Mode::Full, &mut tally, &format!("`{text}`: normalize"), || oh.normalize())?.unwrap();
    let mut calendar = compact_calendar::CompactCalendar::default();
    if (1900..=9999).contains(&holiday.year()) {
        calendar.insert(holiday);
    }
    let ctx = Context::default().with_holidays(ContextHolidays::new(std::sync::Arc::new(calendar), Default::default()));
    let oh = oh.with_context(ctx.clone());
    exercise_ctx(Mode::Light, &mut tally, text, &oh, &format!("no location, PH = {holiday}"), &|n| n, instants, Duration::days(400))?;
    let norm = norm.with_context(ctx);
    exercise_ctx(Mode::Light, &mut tally, text, &norm, "normal form, no location", &|n| n, &instants[..1], Duration::days(400))?;
    let tz = chrono_tz::Pacific::Kiritimati;
    let oh_tz = oh.clone().with_context(Context::default().with_locale(TzLocation::new(tz)));
    exercise_ctx(Mode::Light, &mut tally, text, &oh_tz, &format!("zone {tz}"), &move |n| Utc.from_utc_datetime(&n).with_timezone(&tz), &instants[..1], Duration::days(40))?;
    finish(case, tally);
    Ok(())
}

/// Replay entry: `expression @ instant[, instant...]`.
fn edges_text(text: &str, case: &mut Case) -> Result<(), String> {
    case.key = text.to_string();
    let (expr, at) = text.rsplit_once(" @ ").ok_or("expected `expression @ instant, ...`")?;
    let instants: Vec<NaiveDateTime> = at
        .split(", ")
        .map(|s| NaiveDateTime::parse_from_str(s.trim(), "%Y-%m-%d %H:%M:%S").map_err(|e| format!("{s}: {e}")))
        .collect::<Result<_, _>>()?;
    let holiday = instants.first().map(|t| t.date()).unwrap_or_default();
    edge_exercise(expr, &instants, holiday, case)
}

pub const TOKENS: &[&str] = &[
    "Mo", "Tu", "We", "Th", "Fr", "Sa", "Su", "PH", "SH", "Jan", "Feb", "Mar", "Apr", "May", "Jun", "Jul", "Aug", "Sep", "Oct", "Nov",
    "Dec", "easter", "week", "day", "days", "open", "closed", "off", "unknown", "24/7", "sunrise", "sunset", "dawn", "dusk", "00:00", "24:00",
    "48:00", "10:00", "12:30", "-", "+", ",", ";", "||", ":", "/", "[", "]", "(", ")", "\"", " ", " ", " ", "1", "2", "5", "9", "0", "10", "31", "53",
    "1900", "2020", "9999", "[1]", "[-1]", " +1 day", " -2 days", "+Su", "-Mo", "/2", "/30", "\"c\"", ", ", " || ", "; ", "é", "日", "\u{0}", "\n", "\t",
    "99999999999999999999", "9223372036854775807", "65535", "255",
];

/// One or two token-level mutations of a sentence (character deleted, grammar token inserted,
/// slice duplicated, slice replaced by a token, digit changed, space inserted at a boundary
/// between digits / letters / punctuation).
pub fn mutate(text: &str, ch: &mut Choices) -> String {
    let mut chars: Vec<char> = text.chars().collect();
    let n_mut = 1 + ch.weighted(&[70, 30]);
    for _ in 0..n_mut {
        let len = chars.len().max(1) as u32;
        let pos = ch.draw(len.min(65536)) as usize;
        match ch.draw(7) {
            // a character replaced by a Unicode relative of the same class: a decimal digit of another script with
            // the same value (fullwidth, Arabic-Indic, Devanagari, Bengali, mathematical bold), a fullwidth letter
            // or punctuation mark, a look-alike dash / colon / quote / space (S-C04-j lets the grammar accept any
            // Unicode decimal digit and then unwraps the integer parse)
            6 => {
                let start = pos.min(chars.len().saturating_sub(1));
                let target = ch.draw(3);
                let found = (start..chars.len()).chain(0..start).find(|i| match target {
                    0 | 1 => chars[*i].is_ascii_digit(),
                    _ => chars[*i].is_ascii_graphic(),
                });
                if let Some(i) = found {
                    let c = chars[i];
                    chars[i] = if let Some(d) = c.to_digit(10) {
                        let base = ch.pick(&[0xFF10u32, 0x0660, 0x06F0, 0x0966, 0x09E6, 0x1D7CE, 0x0E50, 0x1D7D8]);
                        char::from_u32(base + d).unwrap_or(c)
                    } else {
                        match c {
                            '-' => ch.pick(&['\u{2010}', '\u{2013}', '\u{2212}', '\u{FF0D}']),
                            ':' => ch.pick(&['\u{FF1A}', '\u{A789}', '\u{2236}']),
                            '"' => ch.pick(&['\u{201C}', '\u{201D}', '\u{FF02}']),
                            ' ' => ch.pick(&['\u{A0}', '\u{2009}', '\u{3000}']),
                            _ => char::from_u32(c as u32 - 0x21 + 0xFF01).unwrap_or(c),
                        }
                    };
                }
            }
            // a space at a boundary between two kinds of characters (digits / letters / punctuation)
            5 => {
                let class = |c: char| if c.is_ascii_digit() { 0 } else if c.is_alphabetic() { 1 } else if c == ' ' { 2 } else { 3 };
                if let Some(i) = (pos.max(1)..chars.len()).find(|i| class(chars[*i - 1]) != class(chars[*i]) && chars[*i] != ' ' && chars[*i - 1] != ' ') {
                    chars.insert(i, ' ');
                }
            }
            0 => {
                if !chars.is_empty() {
                    chars.remove(pos.min(chars.len() - 1));
                }
            }
            1 => {
                let tok: Vec<char> = ch.pick(TOKENS).chars().collect();
                let at = pos.min(chars.len());
                chars.splice(at..at, tok);
            }
            2 => {
                // duplicate a slice
                let end = (pos + 1 + ch.draw(6) as usize).min(chars.len());
                let slice: Vec<char> = chars[pos.min(end)..end].to_vec();
                chars.splice(end..end, slice);
            }
            3 => {
                // replace a slice by a token
                let end = (pos + 1 + ch.draw(4) as usize).min(chars.len());
                let tok: Vec<char> = ch.pick(TOKENS).chars().collect();
                chars.splice(pos.min(end)..end, tok);
            }
            _ => {
                // digit tweak
                if let Some(i) = (pos..chars.len()).find(|i| chars[*i].is_ascii_digit()) {
                    chars[i] = ch.pick(&['0', '9', '6', '3', '1']);
                }
            }
        }
    }
    chars.into_iter().collect()
}

/// Generator 3: a valid sentence with one or two token-level mutations.
fn near_valid(ch: &mut Choices, case: &mut Case) -> Result<(), String> {
    let mode = mode_for(ch, case);
    let base_year = 2020;
    let cfg = Cfg { max_rules: 3, base_year, hostile: ch.chance(30), ..Cfg::default() };
    let (_, text) = gen_expr(ch, &cfg);
    let mutated = mutate(&text, ch);
    case.key = mutated.clone();
    let holidays = gen_holidays(ch, base_year).holidays;
    let tally = exercise(mode, &mutated, ch, holidays, case)?;
    case.nontrivial = case.labels.contains(&"accepted") && mutated != text;
    finish(case, tally);
    Ok(())
}

/// Generator 1 (in-process approximation of byte-level fuzzing): token soups.
fn token_soup(ch: &mut Choices, case: &mut Case) -> Result<(), String> {
    let mode = mode_for(ch, case);
    let n = 1 + ch.draw(14);
    let mut text = String::new();
    for _ in 0..n {
        text.push_str(ch.pick(TOKENS));
    }
    case.key = text.clone();
    let tally = exercise(mode, &text, ch, ContextHolidays::default(), case)?;
    case.nontrivial = case.labels.contains(&"accepted");
    finish(case, tally);
    Ok(())
}

/// Entry for replay files and for the libFuzzer target: text, then evaluation decoded from the
/// remaining bytes.
pub fn exercise_text(text: &str, case: &mut Case) -> Result<(), String> {
    case.key = text.to_string();
    // deterministic pass over the extreme instants, without and with a time zone
    if let Ok(Ok(oh)) = guard(|| OpeningHours::parse(text)) {
        let mut tally = Tally { calls: 0, too_far: 0 };
        let d = |y, m, dd, h, mi, s| NaiveDate::from_ymd_opt(y, m, dd).unwrap().and_hms_opt(h, mi, s).unwrap();
        let extremes = [
            NaiveDateTime::MIN,
            NaiveDateTime::MAX,
            NaiveDateTime::MAX - Duration::seconds(59),
            NaiveDateTime::MIN + Duration::minutes(1),
            d(2020, 1, 1, 0, 0, 0),
            d(2000, 6, 1, 12, 0, 0),
            d(9999, 12, 31, 23, 59, 0),
            d(1899, 12, 31, 23, 59, 59),
        ];
        exercise_ctx(Mode::Light, &mut tally, text, &oh, "no location", &|n| n, &extremes, Duration::days(30))?;
        call(Mode::Full, &mut tally, &format!("`{text}`: next_change at 2020-01-01"), || oh.next_change(d(2020, 1, 1, 0, 0, 0)))?;
        for tz in [chrono_tz::Antarctica::Vostok, chrono_tz::America::Anguilla, chrono_tz::Pacific::Kiritimati] {
            let oh_tz = oh.clone().with_context(Context::default().with_locale(TzLocation::new(tz)));
            exercise_ctx(Mode::Light, &mut tally, text, &oh_tz, &format!("zone {tz}"), &move |n| Utc.from_utc_datetime(&n).with_timezone(&chrono_tz::Africa::Abidjan), &extremes, Duration::days(30))?;
        }
        case.units += tally.calls;
    }
    let choices: Vec<u16> = (0..120u32).map(|i| (i.wrapping_mul(2654435761) >> 7) as u16).collect();
    for salt in 0..3u16 {
        let salted: Vec<u16> = choices.iter().map(|c| c.wrapping_mul(salt * 2 + 1).wrapping_add(salt * 9973)).collect();
        let mut ch = Choices::new(&salted);
        let tally = exercise(Mode::Light, text, &mut ch, ContextHolidays::default(), case)?;
        case.units += tally.calls;
    }
    Ok(())
}

/// Replay entry: the expression evaluated under the largest representable interval-size bounds.
fn bound_text(text: &str, case: &mut Case) -> Result<(), String> {
    case.key = format!("{text} with approx_bound_interval_size at the ends of TimeDelta (MAX, MIN, negative)");
    let oh = OpeningHours::parse(text).map_err(|e| e.to_string())?;
    let mut tally = Tally { calls: 0, too_far: 0 };
    for bound in [Duration::MAX, Duration::MAX - Duration::hours(23), Duration::MAX - Duration::days(1), Duration::days(-2), Duration::MIN, Duration::hours(-25)] {
        let oh = oh.clone().with_context(Context::default().approx_bound_interval_size(bound));
        let t = NaiveDate::from_ymd_opt(2020, 1, 1).unwrap().and_hms_opt(12, 0, 0).unwrap();
        exercise_ctx(Mode::Light, &mut tally, text, &oh, &format!("bound {bound:?}"), &|n| n, &[t], Duration::days(30))?;
    }
    Ok(())
}

pub fn property() -> Property {
    Property {
        id: "C04",
        subs: vec![
            SubCheck {
                name: "hostile",
                rule: "sentence generator with hostile values (day offsets up to i64::MAX, steps up to 65535 / 255, 48:00, event offsets up to 23:59, Feb 29-31 with offsets, years 1900/9999, 300-rule expressions, arbitrary Unicode comments) x context (no location / any of the 596 IANA zones with the instant given in another zone / zone + coordinates incl. poles, antimeridian, -0.0, subnormals / Context::from_coords; interval-size bound none, 0 s .. 100 years, up to TimeDelta::MAX; a fifth of the zone contexts probe a few hours before one of the eight day-long gaps of the tz database, a quarter around an actual transition of the drawn zone) x 2 instants over the whole chrono range (MIN, MAX, +-1 minute, years -262142..262141, both bounds of the supported range): parse, to_string, reparse, normalize, is_constant, schedule_at, state, is_*, next_change, iter_range (first 50), iter_from (first 8) must return without panic; 1 % of the cases run with the full work bound of 6.2 M day schedules per call (exceeding = violation), the others skip calls over 6 000 schedules; non-trivial = the sentence was accepted and evaluated",
                f: hostile,
                text_f: Some(exercise_text),
                cases_quick: 12_000,
                cases_thorough: 500_000,
                max_choices: 420,
            },
            SubCheck {
                name: "near_valid",
                rule: "valid generated sentence with 1-2 mutations (character deleted, grammar token inserted, slice duplicated, slice replaced by a token, digit changed): parse must return Ok or Err, accepted mutants are evaluated like above; non-trivial = mutant differs and is accepted",
                f: near_valid,
                text_f: Some(exercise_text),
                cases_quick: 12_000,
                cases_thorough: 500_000,
                max_choices: 380,
            },
            SubCheck {
                name: "arith_edges",
                rule: "date arithmetic at the limits: a date / weekday / PH / easter selector with a day offset (and optionally a weekday offset) computed so that the shifted date lands within 9 days of the first or last date chrono represents, of either end of the supported range, of year 0 / negative years / year 10001, or whose value sits within 9 of an integer / duration limit (i64::MAX, i64::MAX ms / s / ns in days, i32::MAX, u32::MAX, 2^31, span of chrono's dates); evaluated (schedule_at, state, next_change, iter_range, iter_from; also normal form and a time-zone context) at 3 instants in the year the offset was computed for and its neighbours; non-trivial = the sentence was accepted",
                f: arith_edges,
                text_f: Some(edges_text),
                cases_quick: 6_000,
                cases_thorough: 300_000,
                max_choices: 60,
            },
            SubCheck {
                name: "bound_text",
                rule: "",
                f: |_, _| Ok(()),
                text_f: Some(bound_text),
                cases_quick: 0,
                cases_thorough: 0,
                max_choices: 1,
            },
            SubCheck {
                name: "token_soup",
                rule: "concatenation of 1-14 grammar tokens, numbers, separators and Unicode / control characters; non-trivial = accepted",
                f: token_soup,
                text_f: Some(exercise_text),
                cases_quick: 30_000,
                cases_thorough: 1_000_000,
                max_choices: 140,
            },
        ],
        extra: None,
        assumptions: vec![
            "bounded work is measured deterministically with hook H1 (day schedules evaluated per public call), never with a wall clock",
            "Python-level entry points are covered by C12; coverage-guided byte-level fuzzing of the same predicate runs from /verif/fuzz in the thorough tier",
        ],
    }
}
