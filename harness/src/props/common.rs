//! Helpers shared by the relational checks (C02, C03, C06, C07, C08, C13, C16, C17).

use std::collections::BTreeSet;

use chrono::NaiveDate;
use opening_hours::localization::Localize;
use opening_hours::{Context, OpeningHours};
use opening_hours_syntax::rules::{OpeningHoursExpression, RuleKind};

use crate::choice::Choices;
use crate::gen::ctx::{gen_holidays, GenHolidays};
use crate::gen::expr::{gen_expr, Cfg};
use crate::runner::guard;

/// One generated expression with its parsed forms and context.
pub struct GenCase {
    pub text: String,
    /// The tree the generator denotes for `text` (built without the parser).
    pub denoted: OpeningHoursExpression,
    /// The tree the library's parser returns for `text`.
    pub ast: OpeningHoursExpression,
    pub oh: OpeningHours,
    pub holidays: GenHolidays,
    pub base_year: i32,
}

/// Generate a sentence, parse it with the library and attach generated holiday calendars.
pub fn gen_case(ch: &mut Choices, cfg: &Cfg) -> Result<GenCase, String> {
    let (denoted, text) = gen_expr(ch, cfg);
    let holidays = gen_holidays(ch, cfg.base_year);
    let ast = match guard(|| opening_hours_syntax::parse(&text)) {
        Err(p) => return Err(format!("{text}: parse panicked: {p}")),
        Ok(Err(e)) => return Err(format!("{text}: generated sentence rejected: {e}")),
        Ok(Ok(ast)) => ast,
    };
    let oh = OpeningHours::parse(&text)
        .map_err(|e| format!("{text}: OpeningHours::parse rejects what the syntax crate accepts: {e}"))?
        .with_context(Context::default().with_holidays(holidays.holidays.clone()));
    Ok(GenCase { text, denoted, ast, oh, holidays, base_year: cfg.base_year })
}

pub fn kind_char(k: RuleKind) -> char {
    match k {
        RuleKind::Open => 'O',
        RuleKind::Closed => 'C',
        RuleKind::Unknown => 'U',
    }
}

/// A day as a list of (start minute, end minute, kind, comments).
pub type DayRanges = Vec<(u16, u16, RuleKind, Vec<String>)>;

pub fn day_ranges<L: Localize>(oh: &OpeningHours<L>, d: NaiveDate) -> Result<DayRanges, String> {
    let trs: Vec<_> = guard(|| oh.schedule_at(d).into_iter().collect())?;
    Ok(trs
        .into_iter()
        .map(|t| {
            (
                t.range.start.mins_from_midnight(),
                t.range.end.mins_from_midnight(),
                t.kind,
                t.comments.iter().map(|c| c.to_string()).collect(),
            )
        })
        .collect())
}

/// Kinds per minute; checks that the ranges tile the day.
pub fn day_kinds<L: Localize>(oh: &OpeningHours<L>, d: NaiveDate) -> Result<[RuleKind; 1440], String> {
    let ranges = day_ranges(oh, d)?;
    let mut out = [RuleKind::Closed; 1440];
    let mut next = 0u16;
    for (a, b, k, _) in &ranges {
        if *a != next || a >= b || *b > 1440 {
            return Err(format!("schedule_at({d}) does not tile the day: range {a}..{b} after minute {next}"));
        }
        for m in *a..*b {
            out[m as usize] = *k;
        }
        next = *b;
    }
    if next != 1440 {
        return Err(format!("schedule_at({d}) stops at minute {next}"));
    }
    Ok(out)
}

pub fn fmt_min(m: usize) -> String {
    format!("{:02}:{:02}", m / 60, m % 60)
}

pub fn describe_kinds(day: &[RuleKind; 1440]) -> String {
    let mut s = String::new();
    let mut start = 0;
    for m in 1..=1440 {
        if m == 1440 || day[m] != day[start] {
            if day[start] != RuleKind::Closed {
                s.push_str(&format!("{}-{} {}, ", fmt_min(start), fmt_min(m), kind_char(day[start])));
            }
            start = m;
        }
    }
    if s.is_empty() {
        "closed all day".into()
    } else {
        s
    }
}

/// Compare the kinds two evaluators give to every minute of a day.
pub fn same_kinds<L1: Localize, L2: Localize>(
    a: &OpeningHours<L1>,
    b: &OpeningHours<L2>,
    d: NaiveDate,
    what_a: &str,
    what_b: &str,
) -> Result<(), String> {
    let ka = day_kinds(a, d).map_err(|p| format!("{what_a}: {p}"))?;
    let kb = day_kinds(b, d).map_err(|p| format!("{what_b}: {p}"))?;
    if ka != kb {
        let m = (0..1440).find(|m| ka[*m] != kb[*m]).unwrap();
        return Err(format!(
            "on {d} ({:?}) at {}: {what_a} is {:?} but {what_b} is {:?}; {what_a}: [{}] {what_b}: [{}]",
            chrono::Datelike::weekday(&d),
            fmt_min(m),
            ka[m],
            kb[m],
            describe_kinds(&ka),
            describe_kinds(&kb)
        ));
    }
    Ok(())
}

/// Comments of a range as the set of ", "-separated fragments (several comments of one rule
/// come back joined into one string after printing).
pub fn fragments(comments: &[String]) -> BTreeSet<String> {
    comments
        .iter()
        .flat_map(|c| c.split(", "))
        .map(str::to_string)
        .collect()
}

/// Per minute (kind, comment fragments) of a day.
pub fn day_kinds_comments<L: Localize>(
    oh: &OpeningHours<L>,
    d: NaiveDate,
) -> Result<Vec<(RuleKind, BTreeSet<String>)>, String> {
    let ranges = day_ranges(oh, d)?;
    let mut out = vec![(RuleKind::Closed, BTreeSet::new()); 1440];
    for (a, b, k, c) in &ranges {
        let frag = fragments(c);
        for m in *a..(*b).min(1440) {
            out[m as usize] = (*k, frag.clone());
        }
    }
    Ok(out)
}

/// A day as merged ranges of equal (kind, comment fragments).
pub type NormDay = Vec<(u16, u16, RuleKind, BTreeSet<String>)>;

pub fn day_norm<L: Localize>(oh: &OpeningHours<L>, d: NaiveDate) -> Result<NormDay, String> {
    let mut out: NormDay = Vec::new();
    for (a, b, k, c) in day_ranges(oh, d)? {
        let frag = fragments(&c);
        match out.last_mut() {
            Some(last) if last.1 == a && last.2 == k && last.3 == frag => last.1 = b,
            _ => out.push((a, b, k, frag)),
        }
    }
    Ok(out)
}

pub fn fmt_norm(day: &NormDay) -> String {
    day.iter()
        .map(|(a, b, k, c)| format!("{}-{} {}{:?}", fmt_min(*a as usize), fmt_min(*b as usize), kind_char(*k), c))
        .collect::<Vec<_>>()
        .join(" ")
}

// ---- interval streams -------------------------------------------------------------------------

use chrono::{NaiveDateTime, NaiveTime};

pub fn date_start() -> NaiveDateTime {
    NaiveDate::from_ymd_opt(1900, 1, 1).unwrap().and_time(NaiveTime::MIN)
}

pub fn date_end() -> NaiveDateTime {
    NaiveDate::from_ymd_opt(10000, 1, 1).unwrap().and_time(NaiveTime::MIN)
}

pub type Stream = Vec<(NaiveDateTime, NaiveDateTime, RuleKind)>;

/// The interval stream the daily schedules define on `[from, min(to, 10000-01-01))`:
/// concatenation of `schedule_at` of every day, clipped, equal neighbours merged.
pub fn expected_stream<L: Localize>(
    oh: &OpeningHours<L>,
    from: NaiveDateTime,
    to: NaiveDateTime,
) -> Result<Stream, String> {
    let to_eff = to.min(date_end());
    let mut out: Stream = Vec::new();
    if from >= to_eff {
        return Ok(out);
    }
    fn push(out: &mut Stream, from: NaiveDateTime, to_eff: NaiveDateTime, a: NaiveDateTime, b: NaiveDateTime, k: RuleKind) {
        let (a, b) = (a.max(from), b.min(to_eff));
        if a >= b {
            return;
        }
        match out.last_mut() {
            Some(last) if last.2 == k && last.1 == a => last.1 = b,
            _ => out.push((a, b, k)),
        }
    }
    let mut d = from.date();
    if from < date_start() {
        push(&mut out, from, to_eff, from, date_start(), RuleKind::Closed);
        d = date_start().date();
    }
    while d.and_time(NaiveTime::MIN) < to_eff {
        let midnight = d.and_time(NaiveTime::MIN);
        for (a, b, k, _) in day_ranges(oh, d)? {
            push(
                &mut out,
                from,
                to_eff,
                midnight + chrono::Duration::minutes(a.into()),
                midnight + chrono::Duration::minutes(b.into()),
                k,
            );
        }
        let Some(next) = d.succ_opt() else { break };
        d = next;
    }
    Ok(out)
}

pub enum Scan {
    /// The state changes at this instant.
    Change(NaiveDateTime),
    /// The state stays the same until 10000-01-01.
    Never,
    /// The scan horizon was reached first.
    Horizon,
}

/// Kind of the minute containing `t` according to the daily schedule.
pub fn kind_at<L: Localize>(oh: &OpeningHours<L>, t: NaiveDateTime) -> Result<RuleKind, String> {
    if t < date_start() || t >= date_end() {
        return Ok(RuleKind::Closed);
    }
    let m = chrono::Timelike::hour(&t) * 60 + chrono::Timelike::minute(&t);
    Ok(day_kinds(oh, t.date())?[m as usize])
}

/// Brute-force forward scan of daily schedules: earliest instant after `t` whose kind differs
/// from the kind at `t`.
pub fn first_change_after<L: Localize>(
    oh: &OpeningHours<L>,
    t: NaiveDateTime,
    max_days: u32,
) -> Result<Scan, String> {
    if t >= date_end() {
        return Ok(Scan::Never);
    }
    let k0 = kind_at(oh, t)?;
    let mut d = t.date();
    if t < date_start() {
        // closed until 1900-01-01T00:00; then look for the first non-closed minute
        d = date_start().date();
    }
    for _ in 0..max_days {
        let midnight = d.and_time(NaiveTime::MIN);
        for (a, _, k, _) in day_ranges(oh, d)? {
            let start = midnight + chrono::Duration::minutes(a.into());
            if start > t && k != k0 {
                return Ok(Scan::Change(start));
            }
        }
        match d.succ_opt() {
            Some(n) if n.and_time(NaiveTime::MIN) < date_end() => d = n,
            _ => {
                return Ok(Scan::Never);
            }
        }
    }
    Ok(Scan::Horizon)
}
