//! C07 — normalization does not change the meaning of an expression.

use chrono::NaiveTime;

use crate::choice::Choices;
use crate::engine::Property;
use crate::gen::dates::DateGen;
use crate::gen::expr::Cfg;
use crate::gen::labels::label_expr;
use crate::props::common::{gen_case, same_kinds};
use crate::runner::{guard, Case, SubCheck};

fn meaning(ch: &mut Choices, case: &mut Case) -> Result<(), String> {
    let base_year = if ch.chance(85) { 2020 } else { ch.pick(&[1900, 9992, 2096]) };
    let cfg = Cfg {
        max_rules: 5,
        base_year,
        dense: ch.chance(65),
        canonical_pct: ch.pick(&[85, 60, 100, 0]),
        max_day_offset: 30,
        long_pct: 3,
        repeat_pct: 6,
        ..Cfg::default()
    };
    let g = gen_case(ch, &cfg)?;
    case.key = g.text.clone();
    label_expr(&g.ast, case);
    let norm = guard(|| g.oh.normalize()).map_err(|p| format!("`{}`: normalize panicked: {p}", g.text))?;
    let norm_text = norm.to_string();
    let norm_ast = guard(|| g.ast.clone().normalize()).map_err(|p| format!("`{}`: normalize panicked: {p}", g.text))?;
    case.nontrivial = norm_ast != g.ast;
    if norm_ast.rules.len() < g.ast.rules.len() {
        case.label("rules_merged_or_dropped");
    }
    if norm_ast.rules.len() > g.ast.rules.len() {
        case.label("rules_split");
    }
    if case.nontrivial {
        case.label("rewritten");
    }
    let dates = DateGen::new(&g.ast, g.base_year, &g.holidays.model);
    let what_a = format!("`{}`", g.text);
    let what_b = format!("its normal form `{norm_text}`");
    for i in 0..16 {
        // bias to the day after an interesting day (spill)
        let mut d = dates.draw(ch, true);
        if i % 3 == 1 {
            d = d.succ_opt().unwrap_or(d);
        }
        case.units += 1;
        same_kinds(&g.oh, &norm, d, &what_a, &what_b)?;
        if i < 4 {
            let t = d.and_time(NaiveTime::from_num_seconds_from_midnight_opt(ch.draw(1440) * 60 + ch.draw(60), 0).unwrap());
            let sa = guard(|| g.oh.state(t)).map_err(|p| format!("{what_a}: state({t}) panicked: {p}"))?;
            let sb = guard(|| norm.state(t)).map_err(|p| format!("{what_b}: state({t}) panicked: {p}"))?;
            if sa != sb {
                return Err(format!("state({t}): {what_a} is {sa:?} but {what_b} is {sb:?}"));
            }
        }
    }
    Ok(())
}

/// Thorough: one expression, every day of 1900..9999.
fn sweep(ch: &mut Choices, case: &mut Case) -> Result<(), String> {
    let base_year = ch.pick(&[2020, 1900, 9990]);
    let cfg = Cfg { max_rules: 4, base_year, dense: true, canonical_pct: 85, max_day_offset: 30, long_pct: 2, ..Cfg::default() };
    let g = gen_case(ch, &cfg)?;
    case.key = g.text.clone();
    let norm = guard(|| g.oh.normalize()).map_err(|p| format!("`{}`: normalize panicked: {p}", g.text))?;
    let norm_ast = g.ast.clone().normalize();
    case.nontrivial = norm_ast != g.ast;
    if !case.nontrivial {
        case.exclude("normal-form-identical");
        return Ok(());
    }
    opening_hours::verif_hooks::set_limit(None);
    let what_a = format!("`{}`", g.text);
    let what_b = format!("its normal form `{norm}`");
    let mut d = chrono::NaiveDate::from_ymd_opt(1900, 1, 1).unwrap();
    let end = chrono::NaiveDate::from_ymd_opt(9999, 12, 31).unwrap();
    while d <= end {
        same_kinds(&g.oh, &norm, d, &what_a, &what_b)?;
        case.units += 1;
        d = d.succ_opt().unwrap();
    }
    Ok(())
}

fn meaning_text(text: &str, case: &mut Case) -> Result<(), String> {
    // "expression @ date"
    case.key = text.to_string();
    let (expr, date) = text.rsplit_once(" @ ").ok_or("bad replay text")?;
    let d: chrono::NaiveDate = date.trim().parse().map_err(|_| "bad date")?;
    let oh = opening_hours::OpeningHours::parse(expr).map_err(|e| e.to_string())?;
    let norm = oh.normalize();
    same_kinds(&oh, &norm, d, &format!("`{expr}`"), &format!("its normal form `{norm}`"))
}

pub fn property() -> Property {
    Property {
        id: "C07",
        subs: vec![
            SubCheck {
                name: "meaning",
                rule: "generated expression (1-5 rules, 65 % 'dense' so that rules overlap; canonical and non-canonical rules, all operators and kinds) vs normalize(): same kind on every minute of 16 expression-aware dates (a third of them the day after an interesting day, for spills) under generated calendars, same state() at 4 instants; non-trivial = the normal form differs structurally from the input",
                f: meaning,
                text_f: Some(meaning_text),
                cases_quick: 150_000,
                cases_thorough: 1_200_000,
                max_choices: 400,
            },
            SubCheck {
                name: "sweep",
                rule: "generated dense expression whose normal form differs from it, compared with the normal form on EVERY day 1900-01-01..9999-12-31",
                f: sweep,
                text_f: None,
                cases_quick: 0,
                cases_thorough: 96,
                max_choices: 300,
            },
        ],
        extra: None,
        assumptions: vec!["the library's own pointwise evaluation (schedule_at / state) is the oracle on both sides; its agreement with the documented semantics is C01's subject"],
    }
}
