//! C20 — UniqueSortedVec keeps its sorted-unique invariant under all operations.
//!
//! Oracle: `BTreeSet`. Exhaustive over all ordered pairs of vectors of length <= 6 over a
//! 4-symbol alphabet, plus generated longer vectors (dense collisions) incl. `Arc<str>` elements.

use std::collections::BTreeSet;
use std::sync::Arc;

use opening_hours_syntax::sorted_vec::UniqueSortedVec;

use crate::choice::Choices;
use crate::engine::Property;
use crate::runner::{Case, SubCheck, SubOutcome, Tier};
use crate::util::{par_enumerate, Acc};

const ALPHABET: u64 = 4;

/// Vector number `i` in the enumeration of all vectors of length 0..=max_len.
fn nth_vector(mut i: u64, max_len: u32) -> Vec<u8> {
    for len in 0..=max_len {
        let count = ALPHABET.pow(len);
        if i < count {
            let mut v = Vec::with_capacity(len as usize);
            for _ in 0..len {
                v.push((i % ALPHABET) as u8 * 2 + 1); // symbols 1,3,5,7 (queries use 0..=8)
                i /= ALPHABET;
            }
            return v;
        }
        i -= count;
    }
    unreachable!()
}

fn count_vectors(max_len: u32) -> u64 {
    (0..=max_len).map(|l| ALPHABET.pow(l)).sum()
}

fn check_pair<T: Ord + Clone + std::fmt::Debug>(a: &[T], b: &[T], queries: &[T], deep: bool) -> Result<bool, String> {
    let sa: BTreeSet<T> = a.iter().cloned().collect();
    let sb: BTreeSet<T> = b.iter().cloned().collect();
    let ua: UniqueSortedVec<T> = a.to_vec().into();
    let ub: UniqueSortedVec<T> = b.to_vec().into();
    let exp_a: Vec<T> = sa.iter().cloned().collect();
    let exp_b: Vec<T> = sb.iter().cloned().collect();
    if ua.as_slice() != exp_a.as_slice() {
        return Err(format!("From<Vec>({a:?}) = {:?}, expected {exp_a:?}", ua.as_slice()));
    }
    if ub.as_slice() != exp_b.as_slice() {
        return Err(format!("From<Vec>({b:?}) = {:?}, expected {exp_b:?}", ub.as_slice()));
    }
    let exp_u: Vec<T> = sa.union(&sb).cloned().collect();
    let u1 = ua.clone().union(ub.clone());
    if u1.as_slice() != exp_u.as_slice() {
        return Err(format!("{:?}.union({:?}) = {:?}, expected {exp_u:?}", ua.as_slice(), ub.as_slice(), u1.as_slice()));
    }
    let u2 = ub.clone().union(ua.clone());
    if u2.as_slice() != exp_u.as_slice() {
        return Err(format!("{:?}.union({:?}) = {:?}, expected {exp_u:?}", ub.as_slice(), ua.as_slice(), u2.as_slice()));
    }
    // the result of a union is again a proper operand
    let u3 = u1.clone().union(ua.clone());
    if u3.as_slice() != exp_u.as_slice() {
        return Err(format!("(a∪b)∪a for a={a:?} b={b:?} = {:?}", u3.as_slice()));
    }
    // chains: the result (which may own spare capacity, unlike a freshly built value) united with
    // a third operand lying entirely below it, entirely above it, or interleaved, on either side;
    // `queries` doubles as the pool the third operand is taken from
    if let (Some(lo), Some(hi)) = (exp_u.first(), exp_u.last()) {
        let below: Vec<T> = queries.iter().filter(|q| *q < lo).cloned().collect();
        let above: Vec<T> = queries.iter().filter(|q| *q > hi).cloned().collect();
        let mixed: Vec<T> = queries.iter().step_by(3).cloned().collect();
        for (name, c) in [("below", below), ("above", above), ("interleaved", mixed)] {
            for take in [1usize, 2, c.len()] {
                let c: Vec<T> = c.iter().take(take).cloned().collect();
                if c.is_empty() {
                    continue;
                }
                let uc: UniqueSortedVec<T> = c.clone().into();
                let exp: Vec<T> = exp_u.iter().cloned().chain(c.iter().cloned()).collect::<BTreeSet<T>>().into_iter().collect();
                // (a∪b)∪c, c∪(a∪b) and the same with the first union taken the other way round
                // (a clone would not do: cloning a vector drops its spare capacity)
                for (desc, got) in [
                    ("(a∪b)∪c", ua.clone().union(ub.clone()).union(uc.clone())),
                    ("c∪(a∪b)", uc.clone().union(ua.clone().union(ub.clone()))),
                    ("(b∪a)∪c", ub.clone().union(ua.clone()).union(uc.clone())),
                    ("c∪(b∪a)", uc.clone().union(ub.clone().union(ua.clone()))),
                ] {
                    if got.as_slice() != exp.as_slice() {
                        return Err(format!("{desc} with a={a:?} b={b:?} c={c:?} ({name}) = {:?}, expected {exp:?}", got.as_slice()));
                    }
                    if !deep {
                        continue;
                    }
                    // and once more: a result of a result
                    let again = got.union(uc.clone());
                    if again.as_slice() != exp.as_slice() {
                        return Err(format!("({desc})∪c with a={a:?} b={b:?} c={c:?} ({name}) = {:?}, expected {exp:?}", again.as_slice()));
                    }
                }
            }
        }
    }
    // operands built from vectors with spare capacity
    for extra in [1usize, a.len() + b.len() + 3].into_iter().take(if deep { 2 } else { 1 }) {
        let mut va: Vec<T> = Vec::with_capacity(a.len() + extra);
        va.extend(a.iter().cloned());
        let mut vb: Vec<T> = Vec::with_capacity(b.len() + extra);
        vb.extend(b.iter().cloned());
        let (ra, rb): (UniqueSortedVec<T>, UniqueSortedVec<T>) = (va.into(), vb.into());
        for (desc, got) in [("a.union(b)", ra.clone().union(rb.clone())), ("b.union(a)", rb.union(ra.clone())), ("a.union(fresh b)", ra.union(ub.clone()))] {
            if got.as_slice() != exp_u.as_slice() {
                return Err(format!("{desc} with operands built from vectors with spare capacity {extra}: a={a:?} b={b:?} = {:?}, expected {exp_u:?}", got.as_slice()));
            }
        }
    }
    for q in queries {
        if ua.contains(q) != sa.contains(q) {
            return Err(format!("{:?}.contains({q:?}) = {}", ua.as_slice(), ua.contains(q)));
        }
        let exp = sa.range(q..).next();
        if ua.find_first_following(q) != exp {
            return Err(format!("{:?}.find_first_following({q:?}) = {:?}, expected {exp:?}", ua.as_slice(), ua.find_first_following(q)));
        }
        if u1.contains(q) != (sa.contains(q) || sb.contains(q)) {
            return Err(format!("union {:?}.contains({q:?}) wrong", u1.as_slice()));
        }
        let expu = exp_u.iter().find(|x| *x >= q);
        if u1.find_first_following(q) != expu {
            return Err(format!("union {:?}.find_first_following({q:?}) = {:?}", u1.as_slice(), u1.find_first_following(q)));
        }
    }
    // non-trivial: operands interleave (neither is entirely below the other) and share or
    // repeat elements
    let interleave = !exp_a.is_empty() && !exp_b.is_empty() && !(exp_a.last() < exp_b.first() || exp_b.last() < exp_a.first());
    Ok(interleave)
}

fn exhaustive(_tier: Tier) -> SubOutcome {
    let max_len = 6;
    let n = count_vectors(max_len);
    let rule: &'static str = "exhaustive: all ordered pairs of vectors of length <= 6 over a 4-symbol alphabet (5461^2 pairs); From<Vec>, union both ways, re-union, chains (a∪b)∪c / c∪(a∪b) with third operands below, above and interleaved (a result of a union may own spare capacity, a fresh value does not), operands built from vectors with spare capacity, contains and find_first_following for every query 0..=8 vs BTreeSet; non-trivial = operands' ranges interleave";
    let queries: Vec<u8> = (0..=8).collect();
    par_enumerate("pairs_exhaustive", rule, n * n, move |i, acc: &mut Acc| {
        let a = nth_vector(i / n, max_len);
        let b = nth_vector(i % n, max_len);
        match check_pair(&a, &b, &queries, false) {
            Ok(nt) => {
                acc.case(nt);
                if nt && i % 200_003 == 0 {
                    acc.sample(|| format!("a={a:?} b={b:?}"));
                }
            }
            Err(m) => acc.fail("pairs_text", format!("{a:?} | {b:?}"), m),
        }
    })
}

fn extra(tier: Tier, _seed: u64) -> Vec<SubOutcome> {
    vec![exhaustive(tier)]
}

fn parse_vec(s: &str) -> Vec<u8> {
    s.split(|c: char| !c.is_ascii_digit())
        .filter(|t| !t.is_empty())
        .filter_map(|t| t.parse().ok())
        .collect()
}

fn pairs_text(text: &str, case: &mut Case) -> Result<(), String> {
    case.key = text.to_string();
    let (a, b) = text.split_once('|').unwrap_or((text, ""));
    let queries: Vec<u8> = (0..=255).collect();
    check_pair(&parse_vec(a), &parse_vec(b), &queries, true).map(|_| ())
}

fn gen_vec(ch: &mut Choices, max_len: u32, max_val: u32) -> Vec<u8> {
    let len = ch.draw(max_len + 1);
    (0..len).map(|_| ch.draw(max_val + 1) as u8).collect()
}

/// Random longer vectors of small integers (dense collisions).
fn random_u8(ch: &mut Choices, case: &mut Case) -> Result<(), String> {
    let max_val = [3, 10, 50, 255][ch.draw(4) as usize];
    let a = gen_vec(ch, 200, max_val);
    let b = gen_vec(ch, 200, max_val);
    let queries: Vec<u8> = (0..=max_val.min(254) as u8 + 1).collect();
    case.key = format!("a={a:?} b={b:?}");
    case.units = queries.len() as u64;
    let nt = check_pair(&a, &b, &queries, true)?;
    case.nontrivial = nt && a.len() + b.len() > 12;
    if a.len() > 100 || b.len() > 100 {
        case.label("long");
    }
    Ok(())
}

/// `Arc<str>` elements as used for comments, and `to_ref`.
fn random_str(ch: &mut Choices, case: &mut Case) -> Result<(), String> {
    const WORDS: [&str; 12] = ["", "a", "A", "ab", "b", "é", "z", "Z", "aa", "a b", "10", "9"];
    let mk = |ch: &mut Choices| -> Vec<Arc<str>> {
        let len = ch.draw(9);
        (0..len).map(|_| Arc::from(WORDS[ch.draw(12) as usize])).collect()
    };
    let a = mk(ch);
    let b = mk(ch);
    let queries: Vec<Arc<str>> = WORDS.iter().map(|w| Arc::from(*w)).collect();
    case.key = format!("a={a:?} b={b:?}");
    case.nontrivial = check_pair(&a, &b, &queries, true)?;
    let ua: UniqueSortedVec<Arc<str>> = a.clone().into();
    let r: UniqueSortedVec<&str> = ua.to_ref();
    let exp: BTreeSet<&str> = a.iter().map(|x| &**x).collect();
    if r.as_slice() != exp.iter().copied().collect::<Vec<_>>().as_slice() {
        return Err(format!("to_ref of {a:?} = {:?}", r.as_slice()));
    }
    let back: Vec<Arc<str>> = ua.clone().into();
    if back.as_slice() != ua.as_slice() {
        return Err("Into<Vec> changes the content".into());
    }
    Ok(())
}

/// Deterministic expansion of (length, universe, seed) into a vector: the three parameters are
/// drawn from the choice sequence, so the case stays a pure function of it and shrinks with it.
fn expand(len: usize, universe: u32, seed: u64) -> Vec<u32> {
    let mut s = seed;
    (0..len)
        .map(|_| {
            s = s.wrapping_add(0x9E37_79B9_7F4A_7C15);
            let mut z = s;
            z = (z ^ (z >> 30)).wrapping_mul(0xBF58_476D_1CE4_E5B9);
            z = (z ^ (z >> 27)).wrapping_mul(0x94D0_49BB_1331_11EB);
            ((z ^ (z >> 31)) % u64::from(universe)) as u32 * 2 + 1
        })
        .collect()
}

fn gen_len(ch: &mut Choices) -> usize {
    // brackets around powers of two, where size-dependent strategies would switch
    const STEPS: [i64; 9] = [0, 40, 250, 520, 1030, 1500, 2060, 2600, 3000];
    let i = ch.draw(8) as usize;
    ch.int(STEPS[i], STEPS[i + 1]) as usize
}

fn first_diff(got: &[u32], exp: &[u32]) -> String {
    let i = got.iter().zip(exp).position(|(g, e)| g != e).unwrap_or(got.len().min(exp.len()));
    let lo = i.saturating_sub(2);
    format!(
        "lengths {} vs {}; first difference at index {i}: got {:?}, expected {:?}",
        got.len(),
        exp.len(),
        &got[lo..(i + 3).min(got.len())],
        &exp[lo..(i + 3).min(exp.len())]
    )
}

/// Large operands (up to 3000 elements each) over universes from dense to sparse, with the
/// second operand related to the first in the ways that matter to a merge: sharing its greatest
/// or least element, contained in it, containing it, disjoint above/below.
/// Operands made of runs: consecutive values owned by one operand only, by the other only, or by both, the run
/// lengths drawn from 1..=70 or from a ladder bracketing powers of two — the shapes on which a merge that moves whole
/// runs, gallops or switches strategy after a long run differs from an element-wise merge (S-C20-e: a run of h >= 7
/// followed by a run of exactly 2h-1 of the other operand sitting on a shared value).
fn runs(ch: &mut Choices, case: &mut Case) -> Result<(), String> {
    const LADDER: &[u32] = &[1, 2, 3, 4, 5, 6, 7, 8, 9, 13, 15, 16, 17, 27, 31, 32, 33, 55, 63, 64, 65, 127, 128, 129];
    let blocks = 2 + ch.draw(22);
    let (mut a, mut b): (Vec<u32>, Vec<u32>) = (Vec::new(), Vec::new());
    let mut next: u32 = ch.draw(3);
    let mut longest: u32 = 0;
    for _ in 0..blocks {
        let owner = ch.weighted(&[38, 38, 24]);
        let len = match (owner, ch.weighted(&[55, 30, 15])) {
            (2, 0 | 1) => 1 + ch.draw(3),
            (_, 0) => 1 + ch.draw(70),
            (_, 1) => ch.pick(LADDER),
            // twice / four times the previous run, +-1
            _ => (longest.max(1) * if ch.chance(60) { 2 } else { 4 }).saturating_add_signed(ch.int(-1, 1) as i32).clamp(1, 300),
        };
        if owner != 2 {
            longest = len;
        }
        for _ in 0..len {
            if owner != 1 {
                a.push(next);
            }
            if owner != 0 {
                b.push(next);
            }
            next += 1;
        }
        next += [0, 0, 1, 5][ch.draw(4) as usize];
    }
    if ch.chance(50) {
        // unsorted input with duplicates for From<Vec>
        a.reverse();
        b.extend_from_within(..b.len().min(3));
    }
    let (la, lb) = (a.len(), b.len());
    case.label("operands_made_of_runs");
    large_check(&a, &b, la, lb, next + 1, 9, ch, case)
}

/// Deeply interleaved operands of 4 000 to 70 000 elements, united on a thread with a 1 GiB stack (the library's union
/// recurses once per element; on a default stack that depth is not reachable, which is why it is walked here): whatever
/// a union does beyond some depth or size must still be the set union (S-C20-f falls back to append/dedup/sort at
/// depth 10 000, in the wrong order).
fn deep(ch: &mut Choices, case: &mut Case) -> Result<(), String> {
    let n = [4_000u32, 8_191, 8_192, 9_999, 10_000, 10_001, 16_384, 20_000, 32_768, 65_536, 70_000][ch.draw(11) as usize];
    let (ka, kb) = [(2u32, 3u32), (2, 2), (3, 5), (1, 2), (2, 1), (7, 2)][ch.draw(6) as usize];
    let shift = ch.draw(2);
    let shared_low = ch.chance(50);
    let a: Vec<u32> = (0..n).map(|i| i * ka).collect();
    let mut b: Vec<u32> = (0..n).map(|i| i * kb + shift).collect();
    if shared_low && !b.contains(&0) {
        b.push(0);
    }
    case.key = format!("multiples of {ka} and of {kb} (+{shift}), {n} each{}", if shared_low { ", sharing 0" } else { "" });
    case.label("more_than_4000_interleaved_elements");
    case.nontrivial = true;
    case.units += 1;
    let handle = std::thread::Builder::new()
        .stack_size(1 << 30)
        .spawn(move || {
            let exp: Vec<u32> = a.iter().chain(b.iter()).copied().collect::<BTreeSet<u32>>().into_iter().collect();
            let ua: UniqueSortedVec<u32> = a.into();
            let ub: UniqueSortedVec<u32> = b.into();
            for (desc, got) in [("a.union(b)", ua.clone().union(ub.clone())), ("b.union(a)", ub.union(ua))] {
                if got.as_slice() != exp.as_slice() {
                    return Err(format!("{desc}: {}", first_diff(got.as_slice(), &exp)));
                }
            }
            Ok(())
        })
;
    let handle = match handle {
        Ok(h) => h,
        Err(_) => {
            // no alarm for a machine that cannot reserve the stack
            case.exclude("no-large-stack-thread-available");
            return Ok(());
        }
    };
    match handle.join() {
        Ok(r) => r,
        Err(_) => Err("union panicked".into()),
    }
}

fn random_large(ch: &mut Choices, case: &mut Case) -> Result<(), String> {
    let la = gen_len(ch);
    let lb = gen_len(ch);
    let universe = [64u32, 1000, 5000, 40_000, 1_000_000][ch.draw(5) as usize];
    let (sa, sb) = (u64::from(ch.raw()), u64::from(ch.raw()) + 70_000);
    let a = expand(la, universe, sa);
    let mut b = expand(lb, universe, sb);
    let relation = ch.draw(8);
    match relation {
        1 => b.extend(a.iter().max().copied()),
        2 => b.extend(a.iter().min().copied()),
        3 => b = a.iter().copied().step_by(2 + ch.draw(5) as usize).collect(),
        4 => b.extend(a.iter().copied()),
        5 => b.iter_mut().for_each(|x| *x += 2 * universe + 2),
        6 => {
            // same greatest element on both sides, everything else independent
            let top = 2 * universe + 1;
            b.push(top);
            let mut a2 = a.clone();
            a2.push(top);
            return large_check(&a2, &b, la, lb, universe, relation, ch, case);
        }
        _ => {}
    }
    large_check(&a, &b, la, lb, universe, relation, ch, case)
}

#[allow(clippy::too_many_arguments)]
fn large_check(a: &[u32], b: &[u32], la: usize, lb: usize, universe: u32, relation: u32, ch: &mut Choices, case: &mut Case) -> Result<(), String> {
    case.key = format!("|a|={la} |b|={lb} universe={universe} relation={relation} (a[..4]={:?} b[..4]={:?})", &a[..a.len().min(4)], &b[..b.len().min(4)]);
    let sa: BTreeSet<u32> = a.iter().copied().collect();
    let sb: BTreeSet<u32> = b.iter().copied().collect();
    let ua: UniqueSortedVec<u32> = a.to_vec().into();
    let ub: UniqueSortedVec<u32> = b.to_vec().into();
    let exp_a: Vec<u32> = sa.iter().copied().collect();
    let exp_b: Vec<u32> = sb.iter().copied().collect();
    if ua.as_slice() != exp_a.as_slice() {
        return Err(format!("From<Vec> of {} elements: {}", a.len(), first_diff(ua.as_slice(), &exp_a)));
    }
    if ub.as_slice() != exp_b.as_slice() {
        return Err(format!("From<Vec> of {} elements: {}", b.len(), first_diff(ub.as_slice(), &exp_b)));
    }
    let exp_u: Vec<u32> = sa.union(&sb).copied().collect();
    let u1 = ua.clone().union(ub.clone());
    if u1.as_slice() != exp_u.as_slice() {
        return Err(format!("a.union(b) with {} and {} distinct elements: {}", exp_a.len(), exp_b.len(), first_diff(u1.as_slice(), &exp_u)));
    }
    let u2 = ub.clone().union(ua.clone());
    if u2.as_slice() != exp_u.as_slice() {
        return Err(format!("b.union(a) with {} and {} distinct elements: {}", exp_b.len(), exp_a.len(), first_diff(u2.as_slice(), &exp_u)));
    }
    let u3 = u1.clone().union(ub.clone());
    if u3.as_slice() != exp_u.as_slice() {
        return Err(format!("(a∪b)∪b: {}", first_diff(u3.as_slice(), &exp_u)));
    }
    // chains: a small third operand entirely below / above the (possibly over-allocated) result
    for c in [vec![0u32], vec![4 * universe + 9, 4 * universe + 7], vec![0, 4 * universe + 9]] {
        let uc: UniqueSortedVec<u32> = c.clone().into();
        let exp: Vec<u32> = exp_u.iter().copied().chain(c.iter().copied()).collect::<BTreeSet<u32>>().into_iter().collect();
        // (a clone would not do: cloning a vector drops its spare capacity)
        for (desc, got) in [
            ("(a∪b)∪c", ua.clone().union(ub.clone()).union(uc.clone())),
            ("c∪(a∪b)", uc.clone().union(ua.clone().union(ub.clone()))),
            ("c∪(b∪a)", uc.clone().union(ub.clone().union(ua.clone()))),
        ] {
            if got.as_slice() != exp.as_slice() {
                return Err(format!("{desc} with c={c:?}: {}", first_diff(got.as_slice(), &exp)));
            }
        }
    }
    // queries: around sampled members, the ends and beyond
    let mut queries: Vec<u32> = vec![0, 1, 2, 2 * universe + 1, 2 * universe + 2, u32::MAX];
    for _ in 0..24 {
        if !exp_u.is_empty() {
            let x = exp_u[ch.draw(65536) as usize * exp_u.len() >> 16];
            queries.extend([x.saturating_sub(1), x, x + 1]);
        }
    }
    for q in &queries {
        if ua.contains(q) != sa.contains(q) {
            return Err(format!("contains({q}) on {} elements = {}", exp_a.len(), ua.contains(q)));
        }
        if ua.find_first_following(q) != sa.range(q..).next() {
            return Err(format!("find_first_following({q}) on {} elements = {:?}, expected {:?}", exp_a.len(), ua.find_first_following(q), sa.range(q..).next()));
        }
        if u1.contains(q) != (sa.contains(q) || sb.contains(q)) {
            return Err(format!("contains({q}) on the union = {}", u1.contains(q)));
        }
        let expu = exp_u.iter().find(|x| *x >= q);
        if u1.find_first_following(q) != expu {
            return Err(format!("find_first_following({q}) on the union = {:?}, expected {expu:?}", u1.find_first_following(q)));
        }
    }
    case.units = queries.len() as u64;
    let interleave = !exp_a.is_empty() && !exp_b.is_empty() && !(exp_a.last() < exp_b.first() || exp_b.last() < exp_a.first());
    case.nontrivial = interleave && exp_a.len() + exp_b.len() > 64;
    for limit in [512usize, 1024, 2048, 4096] {
        if exp_a.len() + exp_b.len() > limit {
            case.label(match limit {
                512 => "more_than_512_elements",
                1024 => "more_than_1024_elements",
                2048 => "more_than_2048_elements",
                _ => "more_than_4096_elements",
            });
        }
    }
    if exp_a.last() == exp_b.last() && !exp_a.is_empty() {
        case.label("same_greatest_element");
    }
    Ok(())
}

pub fn property() -> Property {
    Property {
        id: "C20",
        subs: vec![
            SubCheck {
                name: "random_large",
                rule: "generated pairs of vectors of up to 3000 elements each (lengths bracketed around powers of two) over universes of 64 to 10^6 values, the second operand independent, sharing the greatest/least element, contained, containing or disjoint; From<Vec>, union both ways, re-union, chains with a small third operand below / above the result vs BTreeSet and ~80 queries around members and ends; non-trivial = interleaving operands with more than 64 distinct elements in total",
                f: random_large,
                text_f: None,
                cases_quick: 6_000,
                cases_thorough: 60_000,
                max_choices: 48,
            },
            SubCheck {
                name: "runs",
                rule: "operands built from 2-23 runs of consecutive values owned by one operand, the other, or both (run lengths 1-70, a ladder bracketing powers of two up to 129, or twice / four times the previous run +-1; shared runs of 1-3 values), half of them handed over unsorted with duplicates: same checks as random_large; non-trivial as there",
                f: runs,
                text_f: None,
                cases_quick: 20_000,
                cases_thorough: 400_000,
                max_choices: 110,
            },
            SubCheck {
                name: "deep",
                rule: "interleaved operands (multiples of k and of k' with an optional shift, optionally sharing their least value) of 4 000 to 70 000 elements each (bracketing 8 192, 10 000, 16 384, 32 768, 65 536), united both ways on a thread with a 1 GiB stack vs BTreeSet; every case is non-trivial",
                f: deep,
                text_f: None,
                cases_quick: 128,
                cases_thorough: 1_024,
                max_choices: 8,
            },
            SubCheck {
                name: "random_u8",
                rule: "generated pairs of vectors of length <= 200 over alphabets of 4/11/51/256 values, all queries; non-trivial = interleaving operands with more than 12 elements in total",
                f: random_u8,
                text_f: None,
                cases_quick: 60_000,
                cases_thorough: 400_000,
                max_choices: 440,
            },
            SubCheck {
                name: "random_str",
                rule: "generated pairs of Arc<str> vectors (comment-like strings incl. empty, non-ASCII, prefixes), union/contains/find_first_following/to_ref/Into<Vec>; non-trivial = interleaving operands",
                f: random_str,
                text_f: None,
                cases_quick: 60_000,
                cases_thorough: 300_000,
                max_choices: 28,
            },
            SubCheck {
                name: "pairs_text",
                rule: "",
                f: |_, _| Ok(()),
                text_f: Some(pairs_text),
                cases_quick: 0,
                cases_thorough: 0,
                max_choices: 1,
            },
        ],
        extra: Some(extra),
        assumptions: vec!["std::collections::BTreeSet is the reference model"],
    }
}
