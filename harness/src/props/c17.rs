//! C17 — comments are well-formed and come from the rule in effect.

use std::collections::BTreeSet;

use chrono::{Datelike, Duration, NaiveDate, NaiveDateTime, Timelike};
use opening_hours::OpeningHours;
use opening_hours_syntax::rules::RuleKind;

use crate::choice::Choices;
use crate::engine::Property;
use crate::gen::dates::DateGen;
use crate::gen::expr::{wday_str, Cfg, MONTHS, WDAYS};
use crate::gen::labels::label_expr;
use crate::props::c02::gen_time;
use crate::props::common::{day_ranges, gen_case};
use crate::runner::{guard, Case, SubCheck};

fn well_formed(comments: &[String], allowed: &BTreeSet<String>) -> Result<(), String> {
    if !comments.windows(2).all(|w| w[0] < w[1]) {
        return Err(format!("comments {comments:?} are not sorted / free of duplicates"));
    }
    if let Some(c) = comments.iter().find(|c| !allowed.contains(*c)) {
        return Err(format!("comment {c:?} does not come from any rule of the expression"));
    }
    Ok(())
}

/// (a) well-formedness on schedules and intervals, (d) the first interval carries the comments
/// of the schedule period containing the start instant.
fn wellformed(ch: &mut Choices, case: &mut Case) -> Result<(), String> {
    let base_year = 2020;
    let cfg = Cfg { max_rules: 5, base_year, dense: ch.chance(70), comment_pct: 60, max_day_offset: 10, ..Cfg::default() };
    let g = gen_case(ch, &cfg)?;
    label_expr(&g.ast, case);
    // the comments written in the text (from the generator's denotation, not from the parser)
    let allowed: BTreeSet<String> = g.denoted.rules.iter().flat_map(|r| r.comments.iter().map(|c| c.to_string())).collect();
    let with_comments = g.ast.rules.iter().filter(|r| !r.comments.is_empty()).count();
    let dates = DateGen::new(&g.ast, g.base_year, &g.holidays.model);
    let mut saw_merged = false;
    for _ in 0..4 {
        let d = dates.draw(ch, true);
        case.key = format!("{}  day {d}", g.text);
        case.units += 1;
        let day = day_ranges(&g.oh, d).map_err(|p| format!("`{}`: schedule_at({d}) panicked: {p}", g.text))?;
        for (a, b, _, c) in &day {
            well_formed(c, &allowed).map_err(|m| format!("`{}`: schedule_at({d}) range {a}..{b}: {m}", g.text))?;
            if c.len() >= 2 {
                saw_merged = true;
                case.label("range_with_several_comments");
            }
        }
        if !(1900..=9999).contains(&d.year()) && day.iter().any(|r| !r.3.is_empty()) {
            return Err(format!("`{}`: schedule_at({d}) carries comments outside the supported range", g.text));
        }
        // intervals from that day on
        let from = d.and_time(gen_time(ch));
        let to = from + Duration::days(ch.int(1, 40));
        let intervals = guard(|| g.oh.iter_range(from, to).take(200).collect::<Vec<_>>()).map_err(|p| format!("`{}`: iter_range({from}, {to}) panicked: {p}", g.text))?;
        for i in &intervals {
            let c: Vec<String> = i.comments.iter().map(|x| x.to_string()).collect();
            well_formed(&c, &allowed).map_err(|m| format!("`{}`: iter_range({from}, {to}) interval {:?}: {m}", g.text, i.range))?;
        }
        // under an interval-size bound an interval may be cut short or stretched to the end of the window, but its
        // comments are still those of the period it starts in (S-C17-i drops them when it approximates)
        let bounded_first = if ch.chance(35) {
            let bound = Duration::minutes(ch.pick(&[1440i64, 2 * 1440, 7 * 1440, 30 * 1440, 366 * 1440, 3 * 366 * 1440]) + ch.int(0, 1440));
            let bounded = g.oh.clone().with_context(
                opening_hours::Context::default().with_holidays(g.holidays.holidays.clone()).approx_bound_interval_size(bound),
            );
            case.label("first_interval_under_an_interval_size_bound");
            let far = from + Duration::days(ch.pick(&[40i64, 400, 4000]));
            crate::props::c03::capped(Some(60_000), || bounded.iter_range(from, far).next())
                .map_err(|p| format!("`{}` with an interval-size bound: iter_range({from}, {far}) panicked: {p}", g.text))
                .map(|c| match c {
                    crate::props::c03::Capped::Done(x) => x,
                    crate::props::c03::Capped::TooFar => None,
                })?
        } else {
            None
        };
        for (what, first) in [("", intervals.first()), (" under an interval-size bound", bounded_first.as_ref())] {
            let Some(first) = first else { continue };
            let minute = (from.hour() * 60 + from.minute()) as u16;
            if let Some(period) = day.iter().find(|r| r.0 <= minute && minute < r.1) {
                let c: Vec<String> = first.comments.iter().map(|x| x.to_string()).collect();
                if c != period.3 {
                    return Err(format!(
                        "`{}`: iter_range({from}, ..){what} reports comments {c:?} for its first interval, but the schedule period containing the start instant ({}..{} min of {d}) has {:?}",
                        g.text, period.0, period.1, period.3
                    ));
                }
            }
        }
    }
    case.nontrivial = with_comments >= 2 || saw_merged;
    Ok(())
}

/// (b) no comments on days to whose schedule no rule contributes: every rule is restricted to
/// bounded years, probe dates lie at least two years away from them (and outside 1900..9999).
fn absent(ch: &mut Choices, case: &mut Case) -> Result<(), String> {
    let base_year = 2020;
    let cfg = Cfg { max_rules: 4, base_year, dense: ch.chance(50), force_bounded_year: true, comment_pct: 60, max_day_offset: 10, ..Cfg::default() };
    let g = gen_case(ch, &cfg)?;
    label_expr(&g.ast, case);
    case.nontrivial = g.ast.rules.iter().any(|r| !r.comments.is_empty());
    for _ in 0..4 {
        let y = match ch.draw(4) {
            0 => base_year - ch.int(2, 100) as i32,
            1 => base_year + 9 + ch.int(0, 100) as i32,
            2 => ch.pick(&[1899, 10000, 1, 12000, -400]),
            _ => ch.pick(&[1900, 9999, 2017, 2030]),
        };
        let d = NaiveDate::from_ymd_opt(y, 1 + ch.draw(12), 1 + ch.draw(28)).unwrap();
        case.key = format!("{}  day {d}", g.text);
        case.units += 1;
        let day = day_ranges(&g.oh, d).map_err(|p| format!("`{}`: schedule_at({d}) panicked: {p}", g.text))?;
        if day.iter().any(|r| !r.3.is_empty() || r.2 != RuleKind::Closed) {
            return Err(format!("`{}`: no rule applies in {y} (all rules are restricted to {base_year}..{}), yet schedule_at({d}) = {day:?}", g.text, base_year + 7));
        }
        let from = d.and_time(gen_time(ch));
        let intervals = guard(|| g.oh.iter_range(from, from + Duration::days(3)).collect::<Vec<_>>()).map_err(|p| format!("`{}`: iter_range panicked: {p}", g.text))?;
        if intervals.iter().any(|i| !i.comments.is_empty()) {
            return Err(format!("`{}`: iter_range({from}, +3 days) reports comments although no rule applies: {intervals:?}", g.text));
        }
    }
    Ok(())
}

/// (c') provenance against the reference model, on generated expressions: the model of section
/// 2 also yields, per day, what each rule painted as far as it survives (a later normal
/// open/unknown rule matching the day, or a fallback taking over, wipes what came before). An
/// open or unknown period of the library's schedule that lies entirely inside the minutes of one
/// surviving rule, while no other surviving rule's minutes overlap or touch it, must carry exactly
/// that rule's comments.
fn single_owner(ch: &mut Choices, case: &mut Case) -> Result<(), String> {
    let base_year = 2020;
    let cfg = Cfg { max_rules: 4, base_year, dense: ch.chance(70), comment_pct: 70, max_day_offset: 10, repeats: false, ..Cfg::default() };
    let g = gen_case(ch, &cfg)?;
    label_expr(&g.ast, case);
    if let Some(tag) = crate::model::undecided(&g.ast) {
        case.exclude(format!("undecided:{tag}"));
        return Ok(());
    }
    let dates = DateGen::new(&g.ast, g.base_year, &g.holidays.model);
    let mut asserted_with_comments = 0;
    for _ in 0..6 {
        let d = dates.draw(ch, false);
        if crate::model::undecided_at(&g.ast, d.year()).is_some() {
            continue;
        }
        case.key = format!("{}  day {d}  {}", g.text, crate::gen::ctx::describe(&g.holidays));
        let (kinds, _, contributions) = crate::model::eval_day_full(&g.ast, d, &g.holidays.model, true);
        let day = day_ranges(&g.oh, d).map_err(|p| format!("`{}`: schedule_at({d}) panicked: {p}", g.text))?;
        for (a, b, kind, comments) in &day {
            if *kind == RuleKind::Closed {
                continue;
            }
            let (a, b) = (usize::from(*a), usize::from(*b).min(1440));
            // the schedule itself must be the documented one here (else C01 reports it)
            let k = crate::model::K::of(*kind);
            if (a..b).any(|m| kinds[m] != k) {
                continue;
            }
            let inside: Vec<&crate::model::Contribution> = contributions.iter().filter(|c| (a..b).all(|m| c.minutes[m])).collect();
            let around = a.saturating_sub(1)..(b + 1).min(1440);
            let touching = contributions.iter().filter(|c| around.clone().any(|m| c.minutes[m])).count();
            if inside.len() != 1 || touching != 1 {
                case.label("period_with_several_contributors");
                continue;
            }
            let rule = &g.denoted.rules[inside[0].rule];
            let expected: Vec<String> = rule.comments.iter().map(|c| c.to_string()).collect::<BTreeSet<_>>().into_iter().collect();
            case.units += 1;
            if !expected.is_empty() {
                asserted_with_comments += 1;
            }
            if *comments != expected {
                return Err(format!(
                    "`{}`: on {d} the {kind:?} period {:02}:{:02}-{:02}:{:02} comes from rule #{} alone (no other rule's period overlaps or touches it), whose comments are {expected:?}, but schedule_at reports {comments:?}",
                    g.text,
                    a / 60,
                    a % 60,
                    b / 60,
                    b % 60,
                    inside[0].rule + 1
                ));
            }
        }
    }
    let distinct: BTreeSet<Vec<String>> = g.denoted.rules.iter().map(|r| r.comments.iter().map(|c| c.to_string()).collect()).collect();
    case.nontrivial = asserted_with_comments >= 1 && g.ast.rules.len() >= 2 && distinct.len() >= 2;
    Ok(())
}

/// (c) provenance by construction: additional rules with pairwise separated spans, each with
/// its own comment set, all matching the probe day; plus a decoy rule that does not match.
fn provenance(ch: &mut Choices, case: &mut Case) -> Result<(), String> {
    let probe = NaiveDate::from_ymd_opt(2020 + ch.int(0, 6) as i32, 1 + ch.draw(12), 1 + ch.draw(28)).unwrap();
    let k = 1 + ch.draw(4) as usize;
    // k + 1 separated spans inside the day: cut points strictly increasing with gaps >= 1 min
    let mut cuts: Vec<u32> = Vec::new();
    let mut t = ch.draw(200);
    for _ in 0..2 * k {
        cuts.push(t);
        t += 1 + ch.draw(170);
    }
    if *cuts.last().unwrap() > 1440 {
        let scale = 1440.0 / f64::from(*cuts.last().unwrap());
        let mut prev = None;
        for c in cuts.iter_mut() {
            *c = (f64::from(*c) * scale) as u32;
            if let Some(p) = prev {
                if *c <= p {
                    *c = p + 1;
                }
            }
            prev = Some(*c);
        }
    }
    if *cuts.last().unwrap() > 1440 {
        case.exclude("construction-overflow");
        return Ok(());
    }
    let wd = probe.weekday();
    let wd_idx = WDAYS.iter().position(|w| *w == wd).unwrap();
    let day_selector = |ch: &mut Choices| -> String {
        match ch.draw(6) {
            0 => String::new(),
            1 => format!("{} ", wday_str(wd)),
            2 => format!("{}-{} ", wday_str(WDAYS[(wd_idx + 6) % 7]), wday_str(WDAYS[(wd_idx + 1) % 7])),
            3 => format!("{} ", crate::gen::expr::month_str(MONTHS[probe.month0() as usize])),
            4 => format!("{} ", probe.year()),
            _ => format!("{} {} ", crate::gen::expr::month_str(MONTHS[probe.month0() as usize]), probe.day()),
        }
    };
    let comment_sets: [&[&str]; 6] = [&[], &["a"], &["b "], &["c", "a"], &[" d"], &["e", "f"]];
    let mut rules: Vec<(u32, u32, RuleKind, Vec<String>)> = Vec::new();
    let mut text = String::new();
    let mut used = Vec::new();
    for i in 0..k {
        let (a, b) = (cuts[2 * i], cuts[2 * i + 1]);
        let kind = if ch.chance(40) { RuleKind::Unknown } else { RuleKind::Open };
        let mut ci = ch.draw(6) as usize;
        while used.contains(&ci) {
            ci = (ci + 1) % 6;
        }
        used.push(ci);
        let comments: Vec<String> = comment_sets[ci].iter().map(|s| s.to_string()).collect();
        if i > 0 {
            text.push_str(", ");
        }
        let selector = day_selector(ch);
        // a second comment of the same rule needs the `"x":` prefix form, which is only
        // available in front of weekday / time selectors
        let prefix_ok = selector.is_empty() || WDAYS.iter().any(|w| selector.starts_with(wday_str(*w)));
        let comments: Vec<String> = if comments.len() >= 2 && !prefix_ok { vec![comments[0].clone()] } else { comments };
        if comments.len() >= 2 {
            text.push_str(&format!("\"{}\":", comments[1]));
        }
        text.push_str(&selector);
        text.push_str(&format!("{:02}:{:02}-{:02}:{:02}", a / 60, a % 60, b / 60, b % 60));
        if kind == RuleKind::Unknown {
            text.push_str(" unknown");
        } else if ch.chance(30) {
            text.push_str(" open");
        }
        if let Some(c) = comments.first() {
            text.push_str(&format!(" \"{c}\""));
        }
        let mut sorted = comments.clone();
        sorted.sort();
        rules.push((a, b, kind, sorted));
    }
    // decoy: a rule with a comment which does not match the probe day
    if ch.chance(60) {
        let other = WDAYS[(wd_idx + 3) % 7];
        text.push_str(&format!(", {} 00:00-24:00 \"zz\"", wday_str(other)));
    }
    case.key = format!("{text}  day {probe}");
    let oh = OpeningHours::parse(&text).map_err(|e| format!("constructed sentence `{text}` rejected: {e}"))?;
    let day = day_ranges(&oh, probe).map_err(|p| format!("`{text}`: schedule_at({probe}) panicked: {p}"))?;
    let mut expected: Vec<(u16, u16, RuleKind, Vec<String>)> = Vec::new();
    let mut cursor = 0u32;
    for (a, b, kind, comments) in &rules {
        if a == b {
            continue;
        }
        if *a > cursor {
            expected.push((cursor as u16, *a as u16, RuleKind::Closed, vec![]));
        }
        expected.push((*a as u16, *b as u16, *kind, comments.clone()));
        cursor = *b;
    }
    if cursor < 1440 {
        expected.push((cursor as u16, 1440, RuleKind::Closed, vec![]));
    }
    // adjacent expected periods of the same kind cannot occur: spans are separated
    if day != expected {
        return Err(format!("`{text}`: schedule_at({probe}) = {day:?}, expected each separated period to carry exactly its rule's comments: {expected:?}"));
    }
    case.nontrivial = rules.iter().filter(|r| !r.3.is_empty()).count() >= 2;
    case.units = 1;
    let _: Option<NaiveDateTime> = None;
    Ok(())
}

pub fn property() -> Property {
    Property {
        id: "C17",
        subs: vec![
            SubCheck {
                name: "wellformed",
                rule: "generated expression (1-5 rules, 70 % dense so that commented rules overlap and coalesce) x calendars x 4 days: comments of every schedule range and of every interval of iter_range(day+time, +1..40 days) are strictly increasing and a subset of the comments of the expression's rules; none outside 1900..9999; the first interval carries exactly the comments of the schedule period containing the start instant; non-trivial = at least two commented rules or a range carrying several comments",
                f: wellformed,
                text_f: None,
                cases_quick: 100_000,
                cases_thorough: 800_000,
                max_choices: 400,
            },
            SubCheck {
                name: "absent",
                rule: "generated expression in which every rule carries a bounded year selector inside 2020..2027, probed on days at least two years away (and outside 1900..9999): schedule closed without comments, intervals without comments; non-trivial = some rule has a comment",
                f: absent,
                text_f: None,
                cases_quick: 40_000,
                cases_thorough: 300_000,
                max_choices: 360,
            },
            SubCheck {
                name: "single_owner",
                rule: "generated expressions (comments on 70 % of the rules) in the decided domain of the reference model x 6 expression-aware dates: the model also yields what each rule painted on the day as far as it survives (a later matching normal open/unknown rule or a fallback taking over wipes what came before); every open / unknown period of schedule_at that lies inside the minutes of exactly one surviving rule, with no other surviving rule's minutes overlapping or touching it, must carry exactly that rule's comments (sorted, deduplicated); non-trivial = some asserted period has comments and the expression has at least two rules with different comment sets",
                f: single_owner,
                text_f: None,
                cases_quick: 120_000,
                cases_thorough: 1_000_000,
                max_choices: 400,
            },
            SubCheck {
                name: "provenance",
                rule: "constructed expression: 1-4 additional rules whose spans on the probe day are pairwise separated by >= 1 minute, kinds open/unknown, pairwise different comment sets, day selectors (none / weekday / weekday range / month / year / date) known to match the probe day, plus a commented decoy rule on another weekday: the schedule must consist of exactly these periods, each with exactly its rule's comments, and comment-free closed holes; non-trivial = at least two commented periods",
                f: provenance,
                text_f: None,
                cases_quick: 60_000,
                cases_thorough: 400_000,
                max_choices: 80,
            },
        ],
        extra: None,
        assumptions: vec!["provenance is checked on constructed expressions where the contributing rule of every period is known by construction; on general expressions only well-formedness and the first-interval rule are asserted"],
    }
}
