//! One module per property.

pub mod c01;
pub mod c02;
pub mod c03;
pub mod c04;
pub mod c05;
pub mod c06;
pub mod c07;
pub mod c08;
pub mod c09;
pub mod c10;
pub mod c11;
pub mod c13;
pub mod common;
pub mod c14;
pub mod c15;
pub mod c16;
pub mod c17;
pub mod c18;
pub mod c19;
pub mod c20;

use crate::engine::Property;

pub fn all() -> Vec<Property> {
    vec![c01::property(), c02::property(), c03::property(), c04::property(), c05::property(), c06::property(), c07::property(), c08::property(), c09::property(), c10::property(), c11::property(), c13::property(), c14::property(), c15::property(), c16::property(), c17::property(), c18::property(), c19::property(), c20::property()]
}

pub fn by_id(id: &str) -> Option<Property> {
    all().into_iter().find(|p| p.id.eq_ignore_ascii_case(id))
}
