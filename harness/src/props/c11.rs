//! C11 — sun events are physically ordered and consistent with coordinates and zone.

use chrono::{Datelike, Duration, NaiveDate, NaiveDateTime, TimeZone, Timelike};
use opening_hours::localization::{Coordinates, TzLocation};
use opening_hours::{Context, OpeningHours};
use opening_hours_syntax::rules::RuleKind;

use crate::choice::Choices;
use crate::engine::Property;
use crate::runner::{guard, Case, SubCheck, SubOutcome, Tier};
use crate::util::{par_enumerate, Acc};

/// Equation of time in minutes for day-of-year `n` (standard approximation, error < 1 min).
fn equation_of_time(n: f64) -> f64 {
    let b = 2.0 * std::f64::consts::PI * (n - 81.0) / 364.0;
    9.87 * (2.0 * b).sin() - 7.53 * b.cos() - 1.5 * b.sin()
}

fn gen_date(ch: &mut Choices) -> NaiveDate {
    let y = match ch.weighted(&[70, 15, 15]) {
        0 => 1970 + ch.int(0, 80) as i32,
        1 => 1900 + ch.int(0, 69) as i32,
        _ => 2051 + ch.int(0, 49) as i32,
    };
    match ch.weighted(&[70, 30]) {
        0 => NaiveDate::from_ymd_opt(y, 1, 1).unwrap() + Duration::days(ch.int(0, 364)),
        // solstices, equinoxes, usual DST switch days
        _ => {
            let (m, d) = ch.pick(&[(6u32, 21u32), (12, 21), (3, 20), (9, 22), (3, 29), (10, 25), (3, 8), (11, 1), (6, 20), (12, 22)]);
            NaiveDate::from_ymd_opt(y, m, d).unwrap()
        }
    }
}

/// Open periods (minutes) of a day.
fn open_periods<L: opening_hours::localization::Localize>(oh: &OpeningHours<L>, d: NaiveDate) -> Result<Vec<(i64, i64)>, String> {
    let v: Vec<_> = guard(|| oh.schedule_at(d).into_iter().collect())?;
    Ok(v.iter()
        .filter(|t| t.kind == RuleKind::Open)
        .map(|t| (i64::from(t.range.start.mins_from_midnight()), i64::from(t.range.end.mins_from_midnight())))
        .collect())
}

/// (a) without coordinates the four events are 06:00, 07:00, 19:00, 20:00 on every date.
fn defaults(ch: &mut Choices, case: &mut Case) -> Result<(), String> {
    let d = gen_date(ch);
    let tz = chrono_tz::TZ_VARIANTS[ch.draw(chrono_tz::TZ_VARIANTS.len() as u32) as usize];
    let with_tz = ch.chance(60);
    case.key = format!("{d} {}", if with_tz { format!("TzLocation::new({tz})") } else { "NoLocation".into() });
    let expected: [(&str, (i64, i64)); 6] = [
        ("dawn-sunrise", (360, 420)),
        ("sunrise-sunset", (420, 1140)),
        ("sunset-dusk", (1140, 1200)),
        ("dawn-dusk", (360, 1200)),
        ("(sunrise+01:00)-(sunset-00:30)", (480, 1110)),
        ("(dawn-00:15)-(dusk+00:45)", (345, 1245)),
    ];
    for (expr, span) in expected {
        let oh = OpeningHours::parse(expr).map_err(|e| format!("`{expr}` rejected: {e}"))?;
        let got = if with_tz {
            open_periods(&oh.with_context(Context::default().with_locale(TzLocation::new(tz))), d)
        } else {
            open_periods(&oh, d)
        }
        .map_err(|p| format!("`{expr}` on {d}: schedule_at panicked: {p}"))?;
        case.units += 1;
        if got != vec![span] {
            return Err(format!(
                "`{expr}` on {d} without coordinates ({}): open periods {got:?} (minutes), expected exactly {span:?}",
                if with_tz { format!("zone {tz}") } else { "no location".into() }
            ));
        }
    }
    case.nontrivial = with_tz || d.year() < 1970;
    Ok(())
}

/// The minute of each sun event under a zone + coordinates location: the UTC instant of the event (taken from the
/// `sunrise` crate directly, the astronomy itself is not C11's subject) expressed on the wall clock of the zone with
/// chrono-tz, floored to the minute. Zones and dates are biased to the eras of local mean time, whose offsets have a
/// seconds part (S-C09-j is one minute early there on a third of the days).
fn event_minutes(ch: &mut Choices, case: &mut Case) -> Result<(), String> {
    use sunrise::{DawnType, SolarDay, SolarEvent};
    let (lat, lon) = gen_coords_60(ch);
    let tz = chrono_tz::TZ_VARIANTS[ch.draw(chrono_tz::TZ_VARIANTS.len() as u32) as usize];
    let d = if ch.chance(55) {
        NaiveDate::from_ymd_opt(1900 + ch.draw(40) as i32, 1 + ch.draw(12), 1 + ch.draw(28)).unwrap()
    } else {
        gen_date(ch)
    };
    let coords = Coordinates::new(lat, lon).ok_or_else(|| format!("valid coordinates ({lat}, {lon}) rejected"))?;
    let Some(sun_coords) = sunrise::Coordinates::new(lat, lon) else { return Err("harness: coordinates rejected by the sunrise crate".into()) };
    // a third of the locations had other coordinates attached before: the last ones count (S-C11-j keeps the first)
    let locale = if ch.chance(33) {
        let (lat0, lon0) = gen_coords_60(ch);
        case.label("coordinates_attached_twice");
        TzLocation::new(tz).with_coords(Coordinates::new(lat0, lon0).ok_or("valid coordinates rejected")?).with_coords(coords)
    } else {
        TzLocation::new(tz).with_coords(coords)
    };
    case.key = format!("({lat:.4}, {lon:.4}) in {tz} on {d}");
    let events = [("dawn", SolarEvent::Dawn(DawnType::Civil)), ("sunrise", SolarEvent::Sunrise), ("sunset", SolarEvent::Sunset), ("dusk", SolarEvent::Dusk(DawnType::Civil))];
    let mut odd = false;
    for (name, ev) in events {
        let u = SolarDay::new(sun_coords, d).event_time(ev);
        let local = u.with_timezone(&tz).naive_local();
        let expected = i64::from(local.hour() * 60 + local.minute());
        odd |= chrono::Offset::fix(u.with_timezone(&tz).offset()).local_minus_utc() % 60 != 0;
        let oh = OpeningHours::parse(&format!("{name}-24:00")).unwrap().with_context(Context::default().with_locale(locale.clone()));
        let periods = open_periods(&oh, d).map_err(|p| format!("`{name}-24:00` at ({lat}, {lon}) in {tz} on {d}: schedule_at panicked: {p}"))?;
        case.units += 1;
        let got = periods.iter().find(|(_, b)| *b == 1440).map(|(a, _)| *a);
        if got != Some(expected) {
            return Err(format!(
                "`{name}-24:00` at ({lat:.4}, {lon:.4}) in {tz} on {d}: opens at minute {got:?} of the day, but the event is at {u} = {local} on the wall clock of {tz} (minute {expected}); periods {periods:?}"
            ));
        }
    }
    if odd {
        case.label("zone_offset_with_a_seconds_part");
    }
    case.nontrivial = odd;
    Ok(())
}

fn gen_coords_60(ch: &mut Choices) -> (f64, f64) {
    match ch.weighted(&[55, 25, 20]) {
        // uniform on the sphere band |lat| <= 60
        0 => {
            let s = ch.int(-866_025, 866_025) as f64 / 1_000_000.0; // sin(lat), |lat| <= 60
            (s.asin().to_degrees(), ch.int(-180_000, 180_000) as f64 / 1000.0)
        }
        // cities
        1 => ch.pick(&[
            (48.8535, 2.34839), (51.5072, -0.1276), (40.7128, -74.0060), (-33.8688, 151.2093), (35.6762, 139.6503), (59.9139, 10.7522),
            (-54.8019, -68.3030), (1.3521, 103.8198), (39.9042, 116.4074), (43.8256, 87.6168), (64.1466, -21.9426) /* > 60: filtered */,
            (-22.9068, -43.1729), (19.4326, -99.1332), (55.7558, 37.6173), (28.6139, 77.2090), (-41.2866, 174.7756), (21.3069, -157.8583),
            (-13.8333, -171.7667), (60.0, 30.0), (-60.0, -45.0), (0.0, 0.0), (27.7172, 85.3240), (-31.5532, 159.0821),
        ]),
        // longitudes near the antimeridian and zone borders
        _ => (ch.int(-60_000, 60_000) as f64 / 1000.0, ch.pick(&[179.9, -179.9, 180.0, -180.0, 172.5, -172.5, 7.5, -7.5, 22.5, 127.5, 97.5])),
    }
}

/// (b) |lat| <= 60, zone inferred from the coordinates.
fn ordering(ch: &mut Choices, case: &mut Case) -> Result<(), String> {
    let (lat, lon) = gen_coords_60(ch);
    if lat.abs() > 60.0 {
        case.exclude("latitude-above-60");
        return Ok(());
    }
    let d = gen_date(ch);
    ordering_at(lat, lon, d, case)
}

fn ordering_at(lat: f64, lon: f64, d: NaiveDate, case: &mut Case) -> Result<(), String> {
    let coords = Coordinates::new(lat, lon).ok_or_else(|| format!("valid coordinates ({lat}, {lon}) rejected"))?;
    let ctx = guard(|| Context::from_coords(coords)).map_err(|p| format!("Context::from_coords({lat}, {lon}) panicked: {p}"))?;
    let tz = *ctx.locale.get_timezone();
    case.key = format!("({lat:.4}, {lon:.4}) -> {tz} on {d}");
    // read the four event times of day d from `event-24:00` schedules: the period ending at 24:00
    let mut t = [0i64; 4];
    for (i, ev) in ["dawn", "sunrise", "sunset", "dusk"].iter().enumerate() {
        let oh = OpeningHours::parse(&format!("{ev}-24:00")).unwrap().with_context(ctx.clone());
        let periods = open_periods(&oh, d).map_err(|p| format!("`{ev}-24:00` at ({lat}, {lon}) on {d}: schedule_at panicked: {p}"))?;
        match periods.iter().find(|(_, b)| *b == 1440) {
            Some((a, _)) => t[i] = *a,
            None => return Err(format!("`{ev}-24:00` at ({lat:.4}, {lon:.4}) [{tz}] on {d}: no period reaches 24:00: {periods:?}")),
        }
    }
    // solar noon computed by the harness (UTC minutes after 00:00 of d), then local wall clock
    let noon_utc_min = 720.0 - 4.0 * lon - equation_of_time(f64::from(d.ordinal()));
    let noon_utc: NaiveDateTime = d.and_hms_opt(0, 0, 0).unwrap() + Duration::seconds((noon_utc_min * 60.0) as i64);
    let noon_dt = tz.from_utc_datetime(&noon_utc);
    let noon_local = noon_dt.naive_local();
    let nl = i64::from(noon_local.hour() * 60 + noon_local.minute());
    // local event times are times of day: re-anchor them into noon +- 12 h to compare instants
    let anchor = |m: i64| -> i64 {
        let mut x = m;
        while x < nl - 720 {
            x += 1440;
        }
        while x >= nl + 720 {
            x -= 1440;
        }
        x
    };
    let (dawn, sunrise, sunset, dusk) = (anchor(t[0]), anchor(t[1]), anchor(t[2]), anchor(t[3]));
    // a DST switch between two events of the day shifts local times by the jump: allow for it
    let day_start = tz.from_utc_datetime(&(noon_utc - Duration::hours(12)));
    let day_end = tz.from_utc_datetime(&(noon_utc + Duration::hours(12)));
    let jump = (i64::from(chrono::Offset::fix(day_end.offset()).local_minus_utc()) - i64::from(chrono::Offset::fix(day_start.offset()).local_minus_utc())).abs() / 60;
    if jump != 0 {
        // local times of day are then not comparable: compare the instants they denote
        case.label("offset_change_during_the_solar_day");
        match solar_day_instants(tz, lat, lon, d, t, noon_utc)? {
            true => {
                case.units = 1;
                case.nontrivial = true;
            }
            false => case.exclude("offset-change-day:event-instant-not-unique"),
        }
        return Ok(());
    }
    case.units = 1;
    let describe = format!("dawn {dawn} sunrise {sunrise} noon {nl} sunset {sunset} dusk {dusk} (local minutes; raw {t:?})");
    if !(dawn < sunrise && sunrise < nl && nl < sunset && sunset < dusk) {
        return Err(format!("({lat:.4}, {lon:.4}) [{tz}] on {d}: events are not ordered dawn < sunrise < solar noon < sunset < dusk: {describe}"));
    }
    if !(sunrise + 30 < nl && nl < sunset - 30) {
        return Err(format!("({lat:.4}, {lon:.4}) [{tz}] on {d}: solar noon is not at least 30 min inside sunrise..sunset: {describe}"));
    }
    let mid = (sunrise + sunset) as f64 / 2.0;
    if (mid - nl as f64).abs() > 10.0 {
        return Err(format!("({lat:.4}, {lon:.4}) [{tz}] on {d}: the middle of sunrise..sunset is {:.1} min away from solar noon: {describe}", (mid - nl as f64).abs()));
    }
    // the probes below are instants: when the zone lies on the other side of the date line from
    // its longitude (America/Adak, Pacific/Apia ...) the solar noon of date d falls on local date
    // d-1, which for d = 1900-01-01 is outside the supported range (closed by definition)
    if noon_local.date().year() < 1900 || noon_local.date().year() > 9998 {
        case.exclude("solar-noon-outside-supported-range");
        return Ok(());
    }
    // `sunrise-sunset` is open at solar noon and closed at solar midnight
    let day = OpeningHours::parse("sunrise-sunset").unwrap().with_context(ctx.clone());
    let open_at_noon = guard(|| day.is_open(noon_dt)).map_err(|p| format!("is_open panicked: {p}"))?;
    let midnight_dt = tz.from_utc_datetime(&(noon_utc + Duration::hours(12)));
    let closed_at_midnight = guard(|| day.is_closed(midnight_dt)).map_err(|p| format!("is_closed panicked: {p}"))?;
    if !open_at_noon {
        return Err(format!("({lat:.4}, {lon:.4}) [{tz}]: `sunrise-sunset` is not open at solar noon {noon_dt}: {describe}"));
    }
    if !closed_at_midnight {
        return Err(format!("({lat:.4}, {lon:.4}) [{tz}]: `sunrise-sunset` is not closed at solar midnight {midnight_dt}: {describe}"));
    }
    // a span between two events is open between them, wherever local midnight falls (at 58-60
    // degrees north around the June solstice dusk comes after local midnight): probe the middle
    // of the twilights
    let local_at = |m: i64| -> Option<chrono::DateTime<chrono_tz::Tz>> {
        let naive = noon_local.date().and_hms_opt(0, 0, 0).unwrap() + Duration::minutes(m);
        tz.from_local_datetime(&naive).single()
    };
    let probes: [(&str, i64, bool); 6] = [
        ("dawn-dusk", (sunset + dusk) / 2, true),
        ("dawn-dusk", (dawn + sunrise) / 2, true),
        ("sunset-dusk", (sunset + dusk) / 2, true),
        ("sunrise-dusk", (sunset + dusk) / 2, true),
        ("sunrise-sunset", (sunset + dusk) / 2, false),
        ("dawn-sunrise", (dawn + sunrise) / 2, true),
    ];
    // (only where the zone keeps one offset from a day and a half before to a day and a half after
    // solar noon: local times of day of neighbouring dates are otherwise not comparable)
    let steady = (-6..=6).all(|k| crate::props::c09::offset_at(tz, noon_utc + Duration::hours(6 * k)) == crate::props::c09::offset_at(tz, noon_utc));
    for (expr, m, open) in probes {
        if !steady {
            break;
        }
        let strictly_inside = (sunset < m && m < dusk) || (dawn < m && m < sunrise);
        let (true, Some(at)) = (strictly_inside, local_at(m)) else { continue };
        let oh = OpeningHours::parse(expr).unwrap().with_context(ctx.clone());
        let got = guard(|| oh.is_open(at)).map_err(|p| format!("is_open panicked: {p}"))?;
        if got != open {
            return Err(format!("({lat:.4}, {lon:.4}) [{tz}]: `{expr}` is {} at {at}, in the middle of a twilight: {describe}", if got { "open" } else { "not open" }));
        }
        if m >= 1440 || m < 0 {
            case.label("twilight_across_local_midnight");
        }
    }
    let zone_offset_min = i64::from(chrono::Offset::fix(noon_dt.offset()).local_minus_utc()) / 60;
    let solar_offset_min = (4.0 * lon) as i64;
    case.nontrivial = lat.abs() > 40.0 || (zone_offset_min - solar_offset_min).abs() > 90;
    if lat.abs() > 40.0 {
        case.label("high_latitude");
    }
    if (zone_offset_min - solar_offset_min).abs() > 90 {
        case.label("zone_far_from_solar_time");
    }
    Ok(())
}

/// The physical checks on a day during which the zone's offset changes: every local event time
/// is mapped back to the instant it denotes (the unique instant with that wall-clock time on the
/// right side of solar noon and within 14 h of it), and the instants must be ordered around solar
/// noon like on any other day. `Ok(false)` = some event has no unique instant (skipped or repeated
/// wall-clock time): not decided.
fn solar_day_instants(tz: chrono_tz::Tz, lat: f64, lon: f64, d: NaiveDate, t: [i64; 4], noon_utc: NaiveDateTime) -> Result<bool, String> {
    use crate::props::c09::offset_at;
    let mut offsets: Vec<i64> = Vec::new();
    for k in -30..=30 {
        let o = offset_at(tz, noon_utc + Duration::minutes(30 * k));
        if !offsets.contains(&o) {
            offsets.push(o);
        }
    }
    let mut inst = [noon_utc; 4];
    for (i, m) in t.iter().enumerate() {
        let mut found: Vec<NaiveDateTime> = Vec::new();
        for day in [d.pred_opt().unwrap(), d, d.succ_opt().unwrap()] {
            let local = day.and_hms_opt(0, 0, 0).unwrap() + Duration::minutes(*m);
            for o in &offsets {
                let u = local - Duration::seconds(*o);
                let right_side = if i < 2 { u < noon_utc } else { u > noon_utc };
                if offset_at(tz, u) == *o && right_side && (u - noon_utc).num_minutes().abs() < 14 * 60 && !found.contains(&u) {
                    found.push(u);
                }
            }
        }
        if found.len() != 1 {
            return Ok(false);
        }
        inst[i] = found[0];
    }
    let rel = |u: NaiveDateTime| (u - noon_utc).num_minutes();
    let (dawn, sunrise, sunset, dusk) = (rel(inst[0]), rel(inst[1]), rel(inst[2]), rel(inst[3]));
    let describe = format!("minutes relative to solar noon {noon_utc} UTC: dawn {dawn} sunrise {sunrise} sunset {sunset} dusk {dusk} (local times of day {t:?})");
    if !(dawn < sunrise && sunrise < -30 && 30 < sunset && sunset < dusk) {
        return Err(format!("({lat:.4}, {lon:.4}) [{tz}] on {d} (offset change during the day): the instants of the events are not ordered dawn < sunrise < solar noon < sunset < dusk with noon at least 30 min inside: {describe}"));
    }
    if ((sunrise + sunset) as f64 / 2.0).abs() > 10.0 {
        return Err(format!("({lat:.4}, {lon:.4}) [{tz}] on {d} (offset change during the day): the middle of sunrise..sunset is {:.1} min away from solar noon: {describe}", ((sunrise + sunset) as f64 / 2.0).abs()));
    }
    Ok(true)
}

/// Representative places of a zone: points of a 1-degree grid (|lat| <= 60) whose inferred zone
/// it is, at most three per zone (first, middle and last in scan order).
fn zone_places() -> &'static std::collections::BTreeMap<&'static str, Vec<(f64, f64)>> {
    static PLACES: std::sync::OnceLock<std::collections::BTreeMap<&'static str, Vec<(f64, f64)>>> = std::sync::OnceLock::new();
    PLACES.get_or_init(|| {
        let mut all: std::collections::BTreeMap<&'static str, Vec<(f64, f64)>> = Default::default();
        for lat10 in (-595..=595).step_by(10) {
            for lon10 in (-1795..=1795).step_by(10) {
                let (lat, lon) = (f64::from(lat10) / 10.0, f64::from(lon10) / 10.0);
                let tz = *TzLocation::from_coords(Coordinates::new(lat, lon).unwrap()).get_timezone();
                all.entry(tz.name()).or_default().push((lat, lon));
            }
        }
        all.into_iter()
            .map(|(k, v)| {
                let mut pick = vec![v[0], v[v.len() / 2], v[v.len() - 1]];
                pick.dedup();
                (k, pick)
            })
            .collect()
    })
}

/// Exhaustive over the tz database: every offset transition 1900..2045 of every zone that owns
/// a grid point, on the local dates around it.
fn check_zone_transition_days(index: u64, acc: &mut Acc) {
    let tz = chrono_tz::TZ_VARIANTS[index as usize];
    let Some(places) = zone_places().get(tz.name()) else {
        acc.label("zone_without_grid_point");
        return;
    };
    for t in crate::props::c09::all_transitions(tz) {
        let local = t + Duration::seconds(crate::props::c09::offset_at(tz, t));
        for (lat, lon) in places {
            for d in [local.date().pred_opt().unwrap(), local.date()] {
                if d.year() < 1900 {
                    continue;
                }
                let text = format!("{lat} {lon} {d}");
                let mut case = Case::default();
                match ordering_at(*lat, *lon, d, &mut case) {
                    Ok(()) => {
                        let decided_change_day = case.labels.contains(&"offset_change_during_the_solar_day") && case.excluded.is_none();
                        acc.case(decided_change_day);
                        if decided_change_day {
                            acc.label("offset_change_during_the_solar_day");
                        }
                        if decided_change_day && acc.stats.samples.len() < 4 {
                            acc.sample(|| case.key.clone());
                        }
                        if let Some(why) = case.excluded {
                            acc.label(if why.starts_with("offset-change-day") { "undecided_event_instant" } else { "other_exclusion" });
                        }
                    }
                    Err(m) => return acc.fail("ordering", text, m),
                }
            }
        }
    }
}

/// Exhaustive: the default sun hours of a zone-only location on the days around every offset transition of every
/// zone (a zone that skips 06:00, 07:00, 19:00 or 20:00 on some day still has its default events at those
/// wall-clock times: the schedule of a day is expressed in wall-clock minutes).
fn check_zone_default_days(index: u64, acc: &mut Acc) {
    let tz = chrono_tz::TZ_VARIANTS[index as usize];
    let expected: [(&str, (i64, i64)); 3] = [("dawn-sunrise", (360, 420)), ("sunrise-sunset", (420, 1140)), ("sunset-dusk", (1140, 1200))];
    let ohs: Vec<_> = expected
        .iter()
        .map(|(e, _)| OpeningHours::parse(e).unwrap().with_context(Context::default().with_locale(TzLocation::new(tz))))
        .collect();
    for t in crate::props::c09::all_transitions(tz) {
        let before = crate::props::c09::offset_at(tz, t - Duration::seconds(1));
        let after = crate::props::c09::offset_at(tz, t);
        let local = t + Duration::seconds(after);
        // does the skipped stretch contain one of the four default times?
        let (lo, hi) = (t + Duration::seconds(before.min(after)), t + Duration::seconds(before.max(after)));
        let skips_default = after > before
            && [6u32, 7, 19, 20].iter().any(|h| {
                [lo.date(), hi.date()].iter().any(|d| {
                    let x = d.and_hms_opt(*h, 0, 0).unwrap();
                    x >= lo && x < hi
                })
            });
        for d in [local.date().pred_opt().unwrap(), local.date(), local.date().succ_opt().unwrap()] {
            if d.year() < 1900 {
                continue;
            }
            for ((expr, span), oh) in expected.iter().zip(&ohs) {
                acc.case(skips_default);
                match open_periods(oh, d) {
                    Ok(got) if got == vec![*span] => {}
                    Ok(got) => {
                        return acc.fail("defaults", format!("{d} TzLocation::new({tz})"), format!("`{expr}` on {d} without coordinates (zone {tz}, offset change at {t} UTC): open periods {got:?} (minutes), expected exactly {span:?}"))
                    }
                    Err(p) => return acc.fail("defaults", format!("{d} TzLocation::new({tz})"), format!("`{expr}` on {d}: schedule_at panicked: {p}")),
                }
            }
        }
        if skips_default {
            acc.label("transition_skipping_a_default_sun_hour");
            acc.sample(|| format!("{tz}: the clocks skip {lo}..{hi} (local), which contains a default sun hour"));
        }
    }
}

/// Exhaustive on a quarter-degree grid: the zone inferred from coordinates is the zone-finder's preferred answer for
/// that point (the zone polygons shipped with tzf-rs are the source data, as the holiday files are for C10) — also
/// where the finder knows several candidates (S-C11-i picks the alphabetically first one, which differs in one tile).
fn check_zone_source_row(index: u64, acc: &mut Acc) {
    static FINDER: std::sync::OnceLock<tzf_rs::DefaultFinder> = std::sync::OnceLock::new();
    let finder = FINDER.get_or_init(tzf_rs::DefaultFinder::new);
    let lat = -60.0 + index as f64 * 0.25;
    for j in 0..1440 {
        let lon = -180.0 + f64::from(j) * 0.25;
        let Some(coords) = Coordinates::new(lat, lon) else { continue };
        let got = TzLocation::from_coords(coords).get_timezone().name();
        let preferred = finder.get_tz_name(lon, lat);
        let expected = preferred.parse::<chrono_tz::Tz>().map(|tz| tz.name()).unwrap_or("UTC");
        let several = finder.get_tz_names(lon, lat).len() > 1;
        acc.case(several);
        if several {
            acc.label("point_with_several_candidate_zones");
        }
        if got != expected {
            return acc.fail("ordering", format!("{lat} {lon} 2024-06-21"), format!("TzLocation::from_coords({lat}, {lon}) infers {got}, the zone finder's answer for that point is {preferred}"));
        }
    }
}

fn extra(_tier: Tier, _seed: u64) -> Vec<SubOutcome> {
    vec![par_enumerate(
        "zone_source",
        "exhaustive on a quarter-degree grid (latitudes -60..72, 761 760 points): the zone of TzLocation::from_coords equals the preferred answer of the tzf-rs zone finder for that point (UTC when chrono-tz does not know the name); non-trivial = the finder knows several candidate zones there",
        529,
        check_zone_source_row,
    ), par_enumerate(
        "default_hours_on_transition_days",
        "exhaustive over the tz database: every offset transition 1900..2045 of each of the 596 zones x the local date of the transition, the day before and the day after x `dawn-sunrise`, `sunrise-sunset`, `sunset-dusk` under TzLocation::new(zone) (no coordinates): exactly 06:00-07:00, 07:00-19:00, 19:00-20:00; non-trivial = the transition skips 06:00, 07:00, 19:00 or 20:00",
        chrono_tz::TZ_VARIANTS.len() as u64,
        check_zone_default_days,
    ), par_enumerate(
        "transition_days",
        "exhaustive over the tz database: for each of the 596 zones that owns a point of the 1-degree grid (|lat| <= 60; up to 3 points per zone, zone inferred by the library), every offset transition 1900..2045 x the local date of the transition and the day before: the checks of `ordering`, made on the instants the local event times denote when the offset changes during the solar day; non-trivial = the offset changes during the solar day and every event maps to a unique instant",
        chrono_tz::TZ_VARIANTS.len() as u64,
        check_zone_transition_days,
    )]
}

/// Replay entry of `ordering`: "lat lon yyyy-mm-dd".
fn ordering_text(text: &str, case: &mut Case) -> Result<(), String> {
    let parts: Vec<&str> = text.split_whitespace().collect();
    let [lat, lon, date] = parts.as_slice() else { return Err("expected `lat lon yyyy-mm-dd`".into()) };
    let d: NaiveDate = date.parse().map_err(|_| "bad date")?;
    ordering_at(lat.parse().map_err(|_| "bad latitude")?, lon.parse().map_err(|_| "bad longitude")?, d, case)
}

fn next_up(x: f64) -> f64 {
    if x.is_nan() || x == f64::INFINITY {
        return x;
    }
    if x == 0.0 {
        return f64::from_bits(1);
    }
    let bits = x.to_bits();
    f64::from_bits(if x > 0.0 { bits + 1 } else { bits - 1 })
}

fn next_down(x: f64) -> f64 {
    -next_up(-x)
}

fn gen_f64(ch: &mut Choices, limit: f64) -> f64 {
    match ch.weighted(&[30, 25, 15, 15, 15]) {
        0 => ch.int(-(limit as i64) * 1200, (limit as i64) * 1200) as f64 / 1000.0,
        1 => ch.pick(&[limit, -limit, next_up(limit), next_down(-limit), next_down(limit), next_up(-limit), 0.0, -0.0]),
        2 => ch.pick(&[f64::NAN, f64::INFINITY, f64::NEG_INFINITY, -f64::NAN, f64::MAX, f64::MIN]),
        3 => ch.pick(&[f64::MIN_POSITIVE, -f64::MIN_POSITIVE, 5e-324, -5e-324, 1e-300, f64::EPSILON]),
        _ => f64::from_bits((u64::from(ch.raw()) << 48) | (u64::from(ch.raw()) << 32) | (u64::from(ch.raw()) << 16) | u64::from(ch.raw())),
    }
}

/// (c) a pair is accepted iff both components are in range and not NaN; accepted pairs yield a
/// zone and evaluate.
fn acceptance(ch: &mut Choices, case: &mut Case) -> Result<(), String> {
    let lat = gen_f64(ch, 90.0);
    let lon = gen_f64(ch, 180.0);
    case.key = format!("Coordinates::new({lat:?}, {lon:?})");
    let expected = (-90.0..=90.0).contains(&lat) && (-180.0..=180.0).contains(&lon);
    let got = guard(|| Coordinates::new(lat, lon)).map_err(|p| format!("Coordinates::new({lat:?}, {lon:?}) panicked: {p}"))?;
    if got.is_some() != expected {
        return Err(format!("Coordinates::new({lat:?}, {lon:?}) is {}, expected {}", if got.is_some() { "accepted" } else { "rejected" }, if expected { "accepted" } else { "rejected" }));
    }
    case.nontrivial = expected && (lat.abs() > 60.0 || lon.abs() > 179.0 || lat == 0.0);
    case.label(if expected { "accepted" } else { "rejected" });
    let Some(coords) = got else { return Ok(()) };
    if coords.lat() != lat || coords.lon() != lon {
        return Err(format!("Coordinates::new({lat:?}, {lon:?}) stores ({:?}, {:?})", coords.lat(), coords.lon()));
    }
    // every accepted pair yields a zone and evaluates
    let ctx = guard(|| Context::from_coords(coords)).map_err(|p| format!("Context::from_coords({lat:?}, {lon:?}) panicked: {p}"))?;
    let loc = guard(|| TzLocation::from_coords(coords)).map_err(|p| format!("TzLocation::from_coords({lat:?}, {lon:?}) panicked: {p}"))?;
    if loc.get_timezone() != ctx.locale.get_timezone() {
        return Err(format!("Context::from_coords and TzLocation::from_coords infer different zones at ({lat:?}, {lon:?})"));
    }
    let tz = *ctx.locale.get_timezone();
    let d = gen_date(ch);
    for expr in ["sunrise-sunset", "dawn-dusk", "(sunset-02:00)-(sunrise+02:00) unknown; PH off"] {
        let oh = OpeningHours::parse(expr).unwrap().with_context(ctx.clone());
        guard(|| oh.schedule_at(d).into_iter().count()).map_err(|p| format!("`{expr}` at ({lat:?}, {lon:?}) [{tz}] on {d}: schedule_at panicked: {p}"))?;
        let t = tz.from_utc_datetime(&d.and_hms_opt(12, 0, 0).unwrap());
        guard(|| oh.state(t)).map_err(|p| format!("`{expr}` at ({lat:?}, {lon:?}) [{tz}]: state({t}) panicked: {p}"))?;
        opening_hours::verif_hooks::set_limit(Some(3000));
        let r = guard(|| oh.next_change(t));
        opening_hours::verif_hooks::set_limit(Some(crate::runner::DEFAULT_WORK_LIMIT));
        if let Err(p) = r {
            if !p.contains(opening_hours::verif_hooks::LIMIT_MARKER) {
                return Err(format!("`{expr}` at ({lat:?}, {lon:?}) [{tz}]: next_change({t}) panicked: {p}"));
            }
        }
        case.units += 1;
    }
    Ok(())
}

pub fn property() -> Property {
    Property {
        id: "C11",
        subs: vec![
            SubCheck {
                name: "defaults",
                rule: "date 1900..2100 (30 % solstices / equinoxes / usual DST days) x {NoLocation, TzLocation::new(any of the 596 zones)} without coordinates: `dawn-sunrise`, `sunrise-sunset`, `sunset-dusk`, `dawn-dusk` and two offset forms are open exactly 06-07, 07-19, 19-20, 06-20 (+ offsets); non-trivial = a zone context or a date before 1970",
                f: defaults,
                text_f: None,
                cases_quick: 40_000,
                cases_thorough: 200_000,
                max_choices: 40,
            },
            SubCheck {
                name: "event_minutes",
                rule: "coordinates (|lat| <= 60) x any chrono-tz zone x date (55 % in 1900..1939, the eras of local mean time) under TzLocation::new(zone).with_coords(..) (a third of them after other coordinates had been attached first): `dawn-24:00`, `sunrise-24:00`, `sunset-24:00`, `dusk-24:00` open exactly at the minute obtained by expressing the event's UTC instant (sunrise crate) on the zone's wall clock with chrono-tz and flooring to the minute; non-trivial = the zone's offset has a seconds part on that day",
                f: event_minutes,
                text_f: None,
                cases_quick: 30_000,
                cases_thorough: 600_000,
                max_choices: 40,
            },
            SubCheck {
                name: "ordering",
                rule: "coordinates with |lat| <= 60 (uniform on the sphere band / 23 cities / longitudes at the antimeridian and zone borders) x date 1900..2100, zone inferred by Context::from_coords: the four event times are read from the schedules of `event-24:00`, re-anchored into solar noon +- 12 h and must satisfy dawn < sunrise < solar noon < sunset < dusk as instants, solar noon (computed by the harness from longitude and the equation of time, converted with chrono-tz) at least 30 min inside sunrise..sunset and within 10 min of its middle; `sunrise-sunset` open at solar noon and closed 12 h later; `dawn-dusk`, `sunset-dusk`, `sunrise-dusk`, `dawn-sunrise` open and `sunrise-sunset` closed in the middle of the twilights (which cross local midnight at 58-60 degrees around the June solstice); on days during which the zone offset changes the same checks are made on the instants the local event times denote (unique instant with that wall-clock time on the right side of solar noon, else undecided); non-trivial = |lat| > 40 or zone offset more than 90 min away from solar time, or an offset-change day that was decided",
                f: ordering,
                text_f: Some(ordering_text),
                cases_quick: 40_000,
                cases_thorough: 300_000,
                max_choices: 40,
            },
            SubCheck {
                name: "acceptance",
                rule: "arbitrary f64 pairs (in range, exactly +-90 / +-180 and the next representable values beyond and inside, NaN, +-inf, +-0.0, subnormals, random bit patterns): Coordinates::new accepts iff lat in [-90, 90] and lon in [-180, 180]; accepted pairs keep their values, Context::from_coords and TzLocation::from_coords infer the same zone and three sun-event expressions evaluate (schedule_at, state, capped next_change) without panic, poles and antimeridian included; non-trivial = accepted pair beyond 60 degrees, near the antimeridian or on the equator",
                f: acceptance,
                text_f: None,
                cases_quick: 40_000,
                cases_thorough: 300_000,
                max_choices: 40,
            },
        ],
        extra: Some(extra),
        assumptions: vec![
            "solar noon estimate: 12:00 UTC - 4 min/degree of longitude - equation of time (error < 1.5 min); tolerances 30 min and 10 min (largest deviation observed in the design phase: 2.5 min)",
            "chrono-tz offsets are trusted for converting the harness' solar noon to wall-clock time",
        ],
    }
}
