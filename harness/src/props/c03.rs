//! C03 — state and next_change are mutually consistent.
//!
//! Oracle: the daily schedules. `state(t)` is the kind the schedule of t's day gives to the
//! minute containing t; `next_change(t)` is compared with a brute-force forward scan.

use chrono::{Duration, NaiveDateTime};
use opening_hours::verif_hooks;
use opening_hours::OpeningHours;
use opening_hours_syntax::rules::RuleKind;

use crate::choice::Choices;
use crate::engine::Property;
use crate::gen::dates::DateGen;
use crate::gen::expr::Cfg;
use crate::gen::labels::label_expr;
use crate::props::c02::gen_from;
use crate::props::common::{date_end, first_change_after, gen_case, kind_at, Scan};
use crate::runner::{guard, Case, SubCheck};

/// Cap on the day schedules one `next_change` may evaluate in the quick tier (hook H1); a call
/// exceeding it is counted as `too_far` and skipped (a legitimate walk to year 9999 costs
/// seconds), never reported.
const WORK_CAP: u64 = 60_000;

pub enum Capped<T> {
    Done(T),
    TooFar,
}

/// Run a library call under the work cap.
pub fn capped<T>(cap: Option<u64>, f: impl FnOnce() -> T) -> Result<Capped<T>, String> {
    verif_hooks::reset();
    verif_hooks::set_limit(cap);
    let r = guard(f);
    verif_hooks::set_limit(Some(crate::runner::DEFAULT_WORK_LIMIT));
    match r {
        Ok(v) => Ok(Capped::Done(v)),
        Err(p) if p.contains(verif_hooks::LIMIT_MARKER) => Ok(Capped::TooFar),
        Err(p) => Err(p),
    }
}

pub fn check_instant(
    oh: &OpeningHours,
    text: &str,
    t: NaiveDateTime,
    scan_days: u32,
    cap: Option<u64>,
    ch: &mut Choices,
    case: &mut Case,
) -> Result<bool, String> {
    // state and its three predicates
    let exp_state = kind_at(oh, t).map_err(|p| format!("`{text}`: schedule_at panicked: {p}"))?;
    let got_state = guard(|| oh.state(t)).map_err(|p| format!("`{text}`: state({t}) panicked: {p}"))?;
    if got_state != exp_state {
        return Err(format!("`{text}`: state({t}) = {got_state:?} but the schedule of that day gives {exp_state:?}"));
    }
    let preds = guard(|| (oh.is_open(t), oh.is_closed(t), oh.is_unknown(t))).map_err(|p| format!("`{text}`: is_open/is_closed/is_unknown({t}) panicked: {p}"))?;
    let exp_preds = (exp_state == RuleKind::Open, exp_state == RuleKind::Closed, exp_state == RuleKind::Unknown);
    if preds != exp_preds {
        return Err(format!("`{text}`: (is_open, is_closed, is_unknown)({t}) = {preds:?} but state is {exp_state:?}"));
    }
    // next_change against the forward scan
    let got = match capped(cap, || oh.next_change(t)).map_err(|p| format!("`{text}`: next_change({t}) panicked: {p}"))? {
        Capped::Done(x) => x,
        Capped::TooFar => {
            case.exclude("too_far:next_change-exceeds-work-cap");
            return Ok(false);
        }
    };
    let work = verif_hooks::count();
    if let Some(x) = got {
        if x <= t {
            return Err(format!("`{text}`: next_change({t}) = {x} is not after the query instant"));
        }
        if x >= date_end() {
            return Err(format!("`{text}`: next_change({t}) = {x} is at or beyond 10000-01-01"));
        }
    }
    let scan = first_change_after(oh, t, scan_days).map_err(|p| format!("`{text}`: schedule_at panicked: {p}"))?;
    let mut nontrivial = false;
    match scan {
        Scan::Change(e) => {
            if got != Some(e) {
                return Err(format!("`{text}`: next_change({t}) = {got:?} but the daily schedules first change state at {e} (state at t: {exp_state:?})"));
            }
            nontrivial = e - t >= Duration::days(1);
            case.label("exact_change");
        }
        Scan::Never => {
            if got.is_some() {
                return Err(format!("`{text}`: next_change({t}) = {got:?} but the daily schedules keep {exp_state:?} until 10000-01-01"));
            }
            nontrivial = !oh_is_constant(oh);
            case.label("exact_never");
        }
        Scan::Horizon => {
            // the scan gave up: check what can be checked locally
            case.label("beyond_scan_horizon");
            match got {
                Some(x) => {
                    let at = kind_at(oh, x).map_err(|p| format!("schedule_at panicked: {p}"))?;
                    let before = kind_at(oh, x - Duration::minutes(1)).map_err(|p| format!("schedule_at panicked: {p}"))?;
                    if at == exp_state || (x - Duration::minutes(1) >= t && before != exp_state) {
                        return Err(format!("`{text}`: next_change({t}) = {x}: state before is {before:?}, at it {at:?}, at t {exp_state:?}"));
                    }
                    for _ in 0..24 {
                        let span = (x - t).num_minutes().max(1);
                        let p = t + Duration::minutes(ch.int(0, span - 1));
                        let k = kind_at(oh, p).map_err(|p| format!("schedule_at panicked: {p}"))?;
                        if k != exp_state {
                            return Err(format!("`{text}`: next_change({t}) = {x} but the state at {p} is already {k:?} (at t: {exp_state:?})"));
                        }
                    }
                }
                None => {
                    for _ in 0..24 {
                        let span = (date_end() - t).num_minutes().max(1);
                        let p = t + Duration::minutes(ch.int(0, span - 1));
                        let k = kind_at(oh, p).map_err(|p| format!("schedule_at panicked: {p}"))?;
                        if k != exp_state {
                            return Err(format!("`{text}`: next_change({t}) = None but the state at {p} is {k:?} (at t: {exp_state:?})"));
                        }
                    }
                }
            }
        }
    }
    // identical for all t' inside the same interval (skipped when the call itself was expensive)
    let expensive = work > 20_000;
    if let (Some(x), false) = (got, expensive) {
        let span = (x - t).num_seconds().max(1);
        for _ in 0..2 {
            let t2 = t + Duration::seconds(ch.int(0, span - 1));
            if let Capped::Done(g2) = capped(cap, || oh.next_change(t2)).map_err(|p| format!("`{text}`: next_change({t2}) panicked: {p}"))? {
                if g2 != Some(x) {
                    return Err(format!("`{text}`: next_change({t}) = {x} but next_change({t2}) = {g2:?} inside the same interval"));
                }
            }
        }
    }
    Ok(nontrivial)
}

fn oh_is_constant(oh: &OpeningHours) -> bool {
    opening_hours_syntax::parse(&oh.to_string()).map(|e| e.is_constant()).unwrap_or(false)
}

fn instants(ch: &mut Choices, case: &mut Case) -> Result<(), String> {
    // two bands: ordinary years (scan horizon oracle, work cap) and 9984-9999, where "stays the
    // same until 10000-01-01" is cheap to decide exactly
    let late_band = ch.chance(35);
    let base_year = if late_band { 9984 + ch.int(0, 12) as i32 } else if ch.chance(85) { 2020 } else { ch.pick(&[1900, 2096]) };
    let cfg = Cfg { max_rules: 4, base_year, wide_years: !late_band, dense: ch.chance(40), max_day_offset: 40, jumpable_pct: 25, ..Cfg::default() };
    let g = gen_case(ch, &cfg)?;
    label_expr(&g.ast, case);
    if late_band {
        case.label("band_9984_9999");
    }
    let dates = DateGen::new(&g.ast, g.base_year, &g.holidays.model);
    let mut nontrivial = false;
    for _ in 0..3 {
        let t = gen_from(ch, &dates);
        case.key = format!("{}  t={t}", g.text);
        case.units += 1;
        let scan_days = if late_band { 6_200 } else { 1_200 };
        nontrivial |= check_instant(&g.oh, &g.text, t, scan_days, Some(WORK_CAP), ch, case)?;
    }
    case.nontrivial = nontrivial;
    Ok(())
}

/// Thorough: uncapped calls, scan to the end of the supported range.
fn far(ch: &mut Choices, case: &mut Case) -> Result<(), String> {
    let base_year = ch.pick(&[2020, 1900, 5000]);
    let cfg = Cfg { max_rules: 3, base_year, dense: ch.chance(40), max_day_offset: 40, jumpable_pct: 25, ..Cfg::default() };
    let g = gen_case(ch, &cfg)?;
    label_expr(&g.ast, case);
    let dates = DateGen::new(&g.ast, g.base_year, &g.holidays.model);
    let t = gen_from(ch, &dates);
    case.key = format!("{}  t={t}", g.text);
    verif_hooks::set_limit(None);
    case.nontrivial = check_instant(&g.oh, &g.text, t, 3_000_000, None, ch, case)?;
    Ok(())
}

/// Rare recurrences: exact comparison with a forward scan of 48 years.
fn rare(ch: &mut Choices, case: &mut Case) -> Result<(), String> {
    let year = ch.pick(&[2089, 2094, 2096, 2099, 2189, 2395, 1895, 1899, 9889, 9960, 2019, 2000]) + ch.int(0, 6) as i32;
    let text = crate::gen::expr::gen_rare_expr(ch, year);
    let holidays = crate::gen::ctx::gen_holidays(ch, year.clamp(1901, 9980) + 2);
    let oh = OpeningHours::parse(&text)
        .map_err(|e| format!("constructed sentence `{text}` rejected: {e}"))?
        .with_context(opening_hours::Context::default().with_holidays(holidays.holidays.clone()));
    let mut nontrivial = false;
    for _ in 0..2 {
        let t = chrono::NaiveDate::from_ymd_opt(year, 1 + ch.draw(12), 1 + ch.draw(28)).unwrap().and_time(crate::props::c02::gen_time(ch));
        case.key = format!("{text}  t={t}  {}", crate::gen::ctx::describe(&holidays));
        case.units += 1;
        nontrivial |= check_instant(&oh, &text, t, 17_600, Some(400_000), ch, case)?;
    }
    case.nontrivial = nontrivial;
    Ok(())
}

fn instants_text(text: &str, case: &mut Case) -> Result<(), String> {
    case.key = text.to_string();
    let (expr, t) = text.rsplit_once(" @ ").ok_or("bad replay text")?;
    let t = NaiveDateTime::parse_from_str(t.trim(), "%Y-%m-%dT%H:%M:%S").map_err(|e| e.to_string())?;
    let oh = OpeningHours::parse(expr).map_err(|e| e.to_string())?;
    let choices: Vec<u16> = (0..200u32).map(|i| (i.wrapping_mul(40503) >> 2) as u16).collect();
    let mut ch = Choices::new(&choices);
    verif_hooks::set_limit(None);
    check_instant(&oh, expr, t, 3_000_000, None, &mut ch, case).map(|_| ())
}

pub fn property() -> Property {
    Property {
        id: "C03",
        subs: vec![
            SubCheck {
                name: "instants",
                rule: "generated expression x calendars x 3 instants (minute and sub-minute, around expression-aware dates, at both bounds of the supported range, far outside): state / is_open / is_closed / is_unknown vs the minute of the day schedule; next_change vs a brute-force forward scan of daily schedules (1 200 days; for the 35 % of cases generated in years 9984-9999 the scan reaches 10000-01-01, which decides 'none' exactly); beyond the horizon: boundary and 24 interior probes; strictly after t, never >= 10000-01-01, identical for 2 drawn instants inside the interval; calls needing more than 60 000 day schedules (hook H1) are skipped as too_far; non-trivial = exact change at least a day away, or exact 'never' for a non-constant expression",
                f: instants,
                text_f: Some(instants_text),
                cases_quick: 12_000,
                cases_thorough: 400_000,
                max_choices: 480,
            },
            SubCheck {
                name: "rare",
                rule: "constructed rare-recurrence expressions (leap days, week 53, dates on a weekday, year steps, Easter in a given week, offsets crossing the year end, sparse shifted PH) x 2 instants in years around 2096-2105, 2196, 2400, 1900, 9890-9999, 2000-2025: state and next_change against a forward scan of 17 600 days (48 years), work cap 400 000 day schedules; non-trivial as for `instants`",
                f: rare,
                text_f: Some(instants_text),
                cases_quick: 6_000,
                cases_thorough: 60_000,
                max_choices: 280,
            },
            SubCheck {
                name: "far",
                rule: "generated expression, one instant, no work cap, forward scan to 10000-01-01 (exact oracle for every answer)",
                f: far,
                text_f: None,
                cases_quick: 0,
                cases_thorough: 1_600,
                max_choices: 340,
            },
        ],
        extra: None,
        assumptions: vec![
            "schedule_at is the pointwise oracle (C01)",
            "quick tier: next_change calls that need more than 60 000 day schedules are skipped and counted (bounded work itself is C04)",
        ],
    }
}
