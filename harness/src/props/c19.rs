//! C19 — ExtendedTime is a faithful 00:00..48:00 minute counter (exhaustive enumeration).
//!
//! Oracle: plain integer arithmetic on minutes since midnight.

use std::convert::TryInto;

use chrono::{NaiveTime, Timelike};
use opening_hours_syntax::ExtendedTime;

use crate::engine::Property;
use crate::runner::{Case, SubCheck, SubOutcome, Tier};
use crate::util::{par_enumerate, Acc};

const MAX: i32 = 48 * 60;

fn valid(h: u32, m: u32) -> bool {
    m < 60 && (h < 48 || (h == 48 && m == 0))
}

fn boundary(mins: i32) -> bool {
    [0, 1439, 1440, 1441, 2879, 2880].contains(&mins)
}

fn check_new(i: u64, acc: &mut Acc) {
    let (h, m) = ((i >> 8) as u8, (i & 0xff) as u8);
    let got = ExtendedTime::new(h, m);
    let exp = valid(h.into(), m.into());
    acc.case(exp || h == 48 || m == 60 || h == 49);
    acc.sample(|| format!("new({h},{m}) -> {got:?}"));
    if got.is_some() != exp {
        return acc.fail("new", format!("new {h} {m}"), format!("new({h},{m}) = {got:?}, expected is_some = {exp}"));
    }
    if let Some(t) = got {
        let mins = 60 * u16::from(h) + u16::from(m);
        if t.hour() != h || t.minute() != m || t.mins_from_midnight() != mins {
            return acc.fail("new", format!("new {h} {m}"), format!("accessors of new({h},{m}): {}:{} / {}", t.hour(), t.minute(), t.mins_from_midnight()));
        }
        let shown = format!("{t}");
        if shown != format!("{h:02}:{m:02}") {
            return acc.fail("new", format!("new {h} {m}"), format!("Display of new({h},{m}) = {shown:?}"));
        }
        // formatter flags (width, alignment, fill, zero flag) may pad the text but never change it
        let padded = [format!("{t:>8}"), format!("{t:<6}"), format!("{t:5}"), format!("{t:^9}"), format!("{t:*>7}"), format!("{t:08}"), format!("{t:1}")];
        if let Some(p) = padded.iter().find(|p| !p.contains(&shown) || p.trim_matches(|c| c == ' ' || c == '*' || c == '0').len() > shown.len()) {
            return acc.fail("new", format!("new {h} {m}"), format!("new({h},{m}) printed with a width / alignment flag gives {p:?}, which does not contain the zero-padded {shown:?}"));
        }
        // the alternate, sign and precision flags, and the pretty Debug form (of the value and of a container): the
        // same HH:MM (S-C19-h prints times after 24:00 wrapped with a day marker under `#`)
        let flagged = [format!("{t:#}"), format!("{t:+}"), format!("{t:#?}"), format!("{t:?}"), format!("{t:.9}")];
        if let Some(p) = flagged.iter().find(|p| **p != shown) {
            return acc.fail("new", format!("new {h} {m}"), format!("new({h},{m}) printed under a `#` / `+` / precision flag or as pretty Debug gives {p:?} instead of {shown:?}"));
        }
        let nested = format!("{:#?}", Some(t));
        if !nested.contains(&shown) {
            return acc.fail("new", format!("new {h} {m}"), format!("pretty Debug of Some(new({h},{m})) is {nested:?}, which does not contain {shown:?}"));
        }
        let conv: Result<NaiveTime, ()> = t.try_into();
        let exp_conv = NaiveTime::from_hms_opt(h.into(), m.into(), 0).filter(|_| h < 24);
        if conv.ok() != exp_conv {
            return acc.fail("new", format!("new {h} {m}"), format!("TryInto<NaiveTime> of {shown} = {:?}, expected {exp_conv:?}", conv.ok()));
        }
    }
}

fn check_from_mins(i: u64, acc: &mut Acc) {
    let x = i as u16;
    let got = ExtendedTime::from_mins_from_midnight(x);
    let exp = i32::from(x) <= MAX;
    acc.case(exp || i32::from(x) <= MAX + 60);
    if got.is_some() != exp {
        return acc.fail("from_mins", format!("from_mins {x}"), format!("from_mins_from_midnight({x}) = {got:?}"));
    }
    if let Some(t) = got {
        if t.mins_from_midnight() != x || Some(t) != ExtendedTime::new((x / 60) as u8, (x % 60) as u8) {
            return acc.fail("from_mins", format!("from_mins {x}"), format!("from_mins_from_midnight({x}) = {t} is not the inverse of mins_from_midnight"));
        }
    }
}

/// The result of an addition must be *the* extended time of that minute count: the value that
/// `new(r / 60, r % 60)` builds (minutes below 60), equal to it and printed alike — not merely a
/// value whose minute count is right.
fn malformed(got: Option<ExtendedTime>, exp: Option<u16>) -> Option<String> {
    let (g, r) = (got?, exp?);
    let (h, m) = ((r / 60) as u8, (r % 60) as u8);
    if g.hour() != h || g.minute() != m {
        return Some(format!("hour/minute are {}/{}, the time of minute {r} is {h:02}:{m:02}", g.hour(), g.minute()));
    }
    if Some(g) != ExtendedTime::new(h, m) {
        return Some(format!("differs from new({h}, {m})"));
    }
    if boundary(r.into()) || r % 60 == 0 || r % 60 == 59 {
        let shown = g.to_string();
        if shown != format!("{h:02}:{m:02}") {
            return Some(format!("prints as {shown:?}"));
        }
    }
    None
}

fn check_add_minutes(i: u64, acc: &mut Acc) {
    let base = (i >> 16) as u16; // 0..=2880
    let k = (i & 0xffff) as u16 as i16;
    let t = ExtendedTime::from_mins_from_midnight(base).expect("valid base");
    let got = t.add_minutes(k);
    let r = i32::from(base) + i32::from(k);
    let exp = if (0..=MAX).contains(&r) { Some(r as u16) } else { None };
    acc.case(boundary(r) || (exp.is_none() && (-2..=MAX + 2).contains(&r)) || boundary(base.into()) && exp.is_some());
    if i % 10_000_019 == 0 {
        acc.sample(|| format!("{t}.add_minutes({k}) -> {got:?}"));
    }
    if got.map(|g| g.mins_from_midnight()) != exp {
        return acc.fail("add_minutes", format!("add_minutes {base} {k}"), format!("{t}.add_minutes({k}) = {got:?}, integer addition gives {exp:?} minutes"));
    }
    if let Some(msg) = malformed(got, exp) {
        acc.fail("add_minutes", format!("add_minutes {base} {k}"), format!("{t}.add_minutes({k}) = {got:?}: {msg}"));
    }
}

fn check_add_hours(i: u64, acc: &mut Acc) {
    let base = (i >> 8) as u16;
    let k = (i & 0xff) as u8 as i8;
    let t = ExtendedTime::from_mins_from_midnight(base).expect("valid base");
    let got = t.add_hours(k);
    let r = i32::from(base) + 60 * i32::from(k);
    let exp = if (0..=MAX).contains(&r) { Some(r as u16) } else { None };
    acc.case(boundary(r) || boundary(base.into()) || (exp.is_none() && (-60..=MAX + 60).contains(&r)));
    if got.map(|g| g.mins_from_midnight()) != exp {
        return acc.fail("add_hours", format!("add_hours {base} {k}"), format!("{t}.add_hours({k}) = {got:?}, integer addition gives {exp:?} minutes"));
    }
    if let Some(msg) = malformed(got, exp) {
        acc.fail("add_hours", format!("add_hours {base} {k}"), format!("{t}.add_hours({k}) = {got:?}: {msg}"));
    }
}

fn check_order(i: u64, acc: &mut Acc) {
    let n = (MAX + 1) as u64;
    let (a, b) = ((i / n) as u16, (i % n) as u16);
    let ta = ExtendedTime::from_mins_from_midnight(a).unwrap();
    let tb = ExtendedTime::from_mins_from_midnight(b).unwrap();
    acc.case(a.abs_diff(b) <= 60 || a / 60 != b / 60 && a % 60 > b % 60);
    if ta.cmp(&tb) != a.cmp(&b) || ta.partial_cmp(&tb) != Some(a.cmp(&b)) || (ta == tb) != (a == b) {
        acc.fail("order", format!("order {a} {b}"), format!("ordering of {ta} and {tb} is {:?}, minutes compare {:?}", ta.cmp(&tb), a.cmp(&b)));
    }
}

/// Printing is a function of the value alone: every ordered pair of valid times printed one after the other on the
/// same thread (S-C19-g keeps a thread-local table of rendered texts keyed by 11 bits of the minute count).
fn check_display_pairs(i: u64, acc: &mut Acc) {
    let n = (MAX + 1) as u64;
    let (a, b) = ((i / n) as u16, (i % n) as u16);
    let ta = ExtendedTime::from_mins_from_midnight(a).unwrap();
    let tb = ExtendedTime::from_mins_from_midnight(b).unwrap();
    acc.case(a.abs_diff(b) % 1024 == 0 || a.abs_diff(b) % 60 == 0);
    use std::fmt::Write;
    let mut text = String::with_capacity(24);
    let _ = write!(text, "{ta}|{tb}|{tb:?}");
    let (ea, eb) = (format!("{:02}:{:02}", a / 60, a % 60), format!("{:02}:{:02}", b / 60, b % 60));
    let mut parts = text.split('|');
    if parts.next() != Some(ea.as_str()) || parts.next() != Some(eb.as_str()) || parts.next() != Some(eb.as_str()) {
        acc.fail("display_pairs", format!("display_pairs {a} {b}"), format!("printing {ea} then {eb} (Display, Display, Debug) gives {text:?}"));
    }
}

fn check_naive(i: u64, acc: &mut Acc) {
    // every second of the day: From<NaiveTime> drops the seconds and inverts TryInto
    let secs = i as u32;
    let nt = NaiveTime::from_num_seconds_from_midnight_opt(secs, 0).unwrap();
    let t: ExtendedTime = nt.into();
    acc.case(secs % 60 != 0 || secs % 3600 == 0);
    let back: Result<NaiveTime, ()> = t.try_into();
    if u32::from(t.mins_from_midnight()) != secs / 60 || back != Ok(nt.with_second(0).unwrap()) || u32::from(t.hour()) != secs / 3600 || u32::from(t.minute()) != secs / 60 % 60 {
        return acc.fail("naive", format!("naive {secs}"), format!("From<NaiveTime>({nt}) = {t}, back = {back:?}"));
    }
    // fractions of a second, and chrono's representation of a leap second (second 59 with
    // 1e9..2e9 nanoseconds), belong to the same minute
    for nanos in [1u32, 999_999_999, 1_000_000_000, 1_999_999_999] {
        if nanos >= 1_000_000_000 && secs % 60 != 59 {
            continue;
        }
        let Some(fine) = NaiveTime::from_num_seconds_from_midnight_opt(secs, nanos) else { continue };
        let tf: ExtendedTime = fine.into();
        if tf != t {
            return acc.fail("naive", format!("naive {secs}"), format!("From<NaiveTime>({fine:?}) = {tf}, but {nt} (same minute) gives {t}"));
        }
    }
}

fn consts(_i: u64, acc: &mut Acc) {
    acc.case(true);
    let ok = ExtendedTime::MIDNIGHT_00.mins_from_midnight() == 0
        && ExtendedTime::MIDNIGHT_24.mins_from_midnight() == 1440
        && ExtendedTime::MIDNIGHT_48.mins_from_midnight() == 2880;
    if !ok {
        acc.fail("consts", "consts".into(), "MIDNIGHT_00/24/48 constants are not 0/1440/2880 minutes".into());
    }
}

fn extra(_tier: Tier, _seed: u64) -> Vec<SubOutcome> {
    let n_valid = (MAX + 1) as u64;
    vec![
        par_enumerate("new", "all (hour, minute) in u8 x u8: new/accessors/Display (also under width, alignment, fill, zero, alternate, sign and precision flags, pretty Debug of the value and of a container)/TryInto<NaiveTime>; non-trivial = accepted pair or a pair next to the 48:00 / :60 limits", 65536, check_new),
        par_enumerate("from_mins", "all u16 minute counts; non-trivial = within 00:00..49:00", 65536, check_from_mins),
        par_enumerate("add_minutes", "all 2881 valid times x all i16 offsets vs integer addition; non-trivial = result or operand on/next to 00:00, 24:00, 48:00 or just outside the range", n_valid << 16, check_add_minutes),
        par_enumerate("add_hours", "all 2881 valid times x all i8 offsets vs integer addition; non-trivial = boundary operand/result or result within one hour outside the range", n_valid << 8, check_add_hours),
        par_enumerate("display_pairs", "all ordered pairs of valid times printed one after the other (Display of the first, Display and Debug of the second) on the same thread: each text is the zero-padded HH:MM of its own value; non-trivial = minute counts differing by a multiple of 1024 or of 60", n_valid * n_valid, check_display_pairs),
        par_enumerate("order", "all ordered pairs of valid times: Ord/PartialOrd/Eq vs minute ordering; non-trivial = within one hour of each other or hour/minute components disagreeing in order", n_valid * n_valid, check_order),
        par_enumerate("naive", "all 86400 seconds of a day, each also with 1 ns, 999 999 999 ns and (second 59) chrono's leap-second representation: From<NaiveTime> then TryInto<NaiveTime>; non-trivial = non-zero seconds or full hour", 86400, check_naive),
        par_enumerate("consts", "the three public constants", 1, consts),
    ]
}

/// Replay entry: text produced by `Acc::fail` ("add_minutes 1440 -1", ...).
fn replay_text(text: &str, case: &mut Case) -> Result<(), String> {
    case.key = text.to_string();
    let parts: Vec<&str> = text.split_whitespace().collect();
    let num = |i: usize| -> i64 { parts.get(i).and_then(|s| s.parse().ok()).unwrap_or(0) };
    let mut acc = Acc::default();
    match parts.first().copied() {
        Some("new") => check_new(((num(1) as u64) << 8) | (num(2) as u64 & 0xff), &mut acc),
        Some("from_mins") => check_from_mins(num(1) as u64, &mut acc),
        Some("add_minutes") => check_add_minutes(((num(1) as u64) << 16) | (num(2) as i16 as u16 as u64), &mut acc),
        Some("add_hours") => check_add_hours(((num(1) as u64) << 8) | (num(2) as i8 as u8 as u64), &mut acc),
        Some("display_pairs") => check_display_pairs(num(1) as u64 * (MAX as u64 + 1) + num(2) as u64, &mut acc),
        Some("order") => check_order(num(1) as u64 * (MAX as u64 + 1) + num(2) as u64, &mut acc),
        Some("naive") => check_naive(num(1) as u64, &mut acc),
        _ => consts(0, &mut acc),
    }
    match acc.failures.pop() {
        Some(f) => Err(f.message),
        None => Ok(()),
    }
}

fn noop(_: &mut crate::choice::Choices, _: &mut Case) -> Result<(), String> {
    Ok(())
}

pub fn property() -> Property {
    let text_sub = |name: &'static str| SubCheck {
        name,
        rule: "",
        f: noop,
        text_f: Some(replay_text),
        cases_quick: 0,
        cases_thorough: 0,
        max_choices: 1,
    };
    Property {
        id: "C19",
        subs: vec![
            text_sub("new"),
            text_sub("from_mins"),
            text_sub("add_minutes"),
            text_sub("add_hours"),
            text_sub("display_pairs"),
            text_sub("order"),
            text_sub("naive"),
            text_sub("consts"),
        ],
        extra: Some(extra),
        assumptions: vec![
            "integer arithmetic on minutes since midnight is the specification of ExtendedTime",
            "chrono::NaiveTime is trusted for the clock-time conversions",
        ],
    }
}
