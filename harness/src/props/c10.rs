//! C10 — embedded holiday calendars equal the source data, per country (exhaustive).
//!
//! The harness reads `/repo/opening-hours/data/holidays_{public,school}.txt` with its own parser
//! and compares with what `Country::holidays()` decodes from the embedded database.

use std::collections::{BTreeMap, BTreeSet};

use chrono::{Datelike, Duration, NaiveDate};
use opening_hours::localization::Country;
use opening_hours::{Context, OpeningHours};
use opening_hours_syntax::rules::RuleKind;

use crate::choice::Choices;
use crate::engine::Property;
use crate::runner::{guard, Case, SubCheck, SubOutcome, Tier};
use crate::util::{par_enumerate, Acc};

type Db = BTreeMap<String, BTreeSet<NaiveDate>>;

fn repo_root() -> std::path::PathBuf {
    std::env::var_os("VERIF_REPO").map(Into::into).unwrap_or_else(|| "/repo".into())
}

fn read_db(kind: &str) -> Result<Db, String> {
    let path = repo_root().join(format!("opening-hours/data/holidays_{kind}.txt"));
    let content = std::fs::read_to_string(&path).map_err(|e| format!("cannot read {}: {e}", path.display()))?;
    let mut db = Db::new();
    for (i, line) in content.lines().enumerate() {
        if line.trim().is_empty() {
            continue;
        }
        let (region, date) = line.split_once(' ').ok_or_else(|| format!("{}:{}: malformed line", path.display(), i + 1))?;
        // own date reader: yyyy-mm-dd (possibly with a sign)
        let mut it = date.trim().rsplitn(3, '-');
        let d: u32 = it.next().and_then(|x| x.parse().ok()).ok_or("bad day")?;
        let m: u32 = it.next().and_then(|x| x.parse().ok()).ok_or("bad month")?;
        let y: i32 = it.next().and_then(|x| x.parse().ok()).ok_or("bad year")?;
        let date = NaiveDate::from_ymd_opt(y, m, d).ok_or_else(|| format!("{}:{}: invalid date", path.display(), i + 1))?;
        db.entry(region.to_string()).or_default().insert(date);
    }
    Ok(db)
}

fn dbs() -> &'static Result<(Db, Db), String> {
    static DBS: std::sync::OnceLock<Result<(Db, Db), String>> = std::sync::OnceLock::new();
    DBS.get_or_init(|| Ok((read_db("public")?, read_db("school")?)))
}

const FIRST: (i32, u32, u32) = (1990, 1, 1);
const LAST: (i32, u32, u32) = (2085, 12, 31);

fn check_calendar(index: u64, acc: &mut Acc) {
    let country = Country::ALL[(index / 2) as usize];
    let school = index % 2 == 1;
    let kind = if school { "school" } else { "public" };
    let code = country.iso_code();
    let (public_db, school_db) = match dbs() {
        Ok(x) => x,
        Err(e) => return acc.fail("calendars_text", format!("{code} {kind}"), format!("harness: {e}")),
    };
    let empty = BTreeSet::new();
    let listed = if school { school_db } else { public_db }.get(code).unwrap_or(&empty);
    let holidays = country.holidays();
    let cal = if school { holidays.get_school() } else { holidays.get_public() };
    let fail = |acc: &mut Acc, msg: String| acc.fail("calendars_text", format!("{code} {kind}"), format!("{code} ({kind} holidays): {msg}"));
    // ordered iteration and count equal the listed set
    let got: Vec<NaiveDate> = cal.iter().collect();
    let exp: Vec<NaiveDate> = listed.iter().copied().collect();
    if got != exp {
        let extra: Vec<_> = got.iter().filter(|d| !listed.contains(d)).take(5).collect();
        let got_set: BTreeSet<_> = got.iter().copied().collect();
        let missing: Vec<_> = exp.iter().filter(|d| !got_set.contains(d)).take(5).collect();
        return fail(acc, format!("the embedded calendar has {} dates, the data file lists {}; not listed but embedded: {extra:?}; listed but not embedded: {missing:?}", got.len(), exp.len()));
    }
    if cal.count() as usize != listed.len() {
        return fail(acc, format!("count() = {}, {} dates listed", cal.count(), listed.len()));
    }
    // membership on every date of 1990..2085 and on every listed date
    let mut d = NaiveDate::from_ymd_opt(FIRST.0, FIRST.1, FIRST.2).unwrap();
    let last = NaiveDate::from_ymd_opt(LAST.0, LAST.1, LAST.2).unwrap();
    let mut tests = 0u64;
    let mut positives = 0u64;
    while d <= last {
        let exp = listed.contains(&d);
        if cal.contains(d) != exp {
            return fail(acc, format!("contains({d}) = {}, the data file says {exp}", cal.contains(d)));
        }
        // strictly next member, from every date and not only from members
        let next = listed.range(d + Duration::days(1)..).next().copied();
        if cal.first_after(d) != next {
            return fail(acc, format!("first_after({d}) = {:?}, next listed date is {next:?}", cal.first_after(d)));
        }
        tests += 1;
        positives += u64::from(exp);
        d = d.succ_opt().unwrap();
    }
    for d in listed {
        if !cal.contains(*d) {
            return fail(acc, format!("listed date {d} is not contained"));
        }
        // strictly next member
        let next = listed.range(*d + Duration::days(1)..).next().copied();
        if cal.first_after(*d) != next {
            return fail(acc, format!("first_after({d}) = {:?}, next listed date is {next:?}", cal.first_after(*d)));
        }
    }
    // images of every listed date in other years (same month and day): mirrored around year 0 / 1, shifted by a
    // century, by 400 years, by 2^k years - a calendar that folds, truncates or drops the sign of a year would
    // report them (S-C10-g looks year y <= 0 up as 1 - y); and the ends of what a date can hold
    for d in listed {
        use chrono::Datelike;
        for y in [1 - d.year(), -d.year(), d.year() - 100, d.year() + 100, d.year() - 400, d.year() + 400, d.year() - 256, d.year() + 256, d.year() + 65_536, d.year() - 65_536, d.year() % 100, d.year() - 2000] {
            let Some(image) = NaiveDate::from_ymd_opt(y, d.month(), d.day()) else { continue };
            let exp = listed.contains(&image);
            tests += 1;
            if cal.contains(image) != exp {
                return fail(acc, format!("contains({image}) = {}, the data file says {exp} (image of the listed date {d})", cal.contains(image)));
            }
        }
    }
    for far in [NaiveDate::MIN, NaiveDate::MAX, NaiveDate::from_ymd_opt(0, 1, 1).unwrap(), NaiveDate::from_ymd_opt(-1, 12, 31).unwrap(), NaiveDate::from_ymd_opt(1, 1, 1).unwrap()] {
        tests += 1;
        if cal.contains(far) {
            return fail(acc, format!("contains({far}) = true"));
        }
        let next = listed.range(far.succ_opt().unwrap_or(far)..).next().copied().filter(|_| far < NaiveDate::MAX);
        if cal.first_after(far) != next {
            return fail(acc, format!("first_after({far}) = {:?}, next listed date is {next:?}", cal.first_after(far)));
        }
    }
    acc.stats.cases += tests;
    acc.stats.units += tests;
    acc.stats.nontrivial_total += positives;
    acc.stats.distinct_counted += positives;
    acc.label(if listed.is_empty() { "country_without_listed_dates" } else { "country_with_listed_dates" });
    if index % 23 == 0 {
        acc.sample(|| format!("{code} {kind}: {} listed dates, {} membership tests, first {:?}", listed.len(), tests, listed.first()));
    }
}

fn check_codes(_i: u64, acc: &mut Acc) {
    let codes: BTreeSet<&str> = Country::ALL.iter().map(|c| c.iso_code()).collect();
    if codes.len() != Country::ALL.len() {
        return acc.fail("codes_text", "codes".into(), "ISO codes are not unique".into());
    }
    let all: BTreeSet<Country> = Country::ALL.iter().copied().collect();
    if all.len() != Country::ALL.len() {
        return acc.fail("codes_text", "codes".into(), "Country::ALL lists a country twice".into());
    }
    for c in Country::ALL {
        acc.case(true);
        let code = c.iso_code();
        if code.parse::<Country>().ok() != Some(c) {
            return acc.fail("codes_text", code.into(), format!("parsing the code {code:?} of {c:?} gives {:?}", code.parse::<Country>()));
        }
        if c.to_string().parse::<Country>().ok() != Some(c) && c.to_string() != c.name() {
            return acc.fail("codes_text", code.into(), format!("Display of {c:?} is {:?}: neither its code nor its name", c.to_string()));
        }
    }
    // every other two-letter string, and case / whitespace variants of valid codes, is rejected
    for a in b'A'..=b'Z' {
        for b in b'A'..=b'Z' {
            let s = String::from_utf8(vec![a, b]).unwrap();
            let variants = [s.clone(), s.to_lowercase(), format!(" {s}"), format!("{s} "), format!("{}{}", &s[..1], s[1..].to_lowercase()), format!("{s}{s}"), s[..1].to_string()];
            for (k, v) in variants.iter().enumerate() {
                acc.case(codes.contains(s.as_str()));
                let accepted = v.parse::<Country>().is_ok();
                let expected = k == 0 && codes.contains(s.as_str());
                if accepted != expected {
                    return acc.fail("codes_text", v.clone(), format!("parse::<Country>({v:?}) accepted = {accepted}, expected {expected}"));
                }
            }
        }
    }
    for v in ["", "FRA", "France", "fr", "F", "F R", "FR\n", "\u{0}FR", "ＦＲ"] {
        acc.case(true);
        if v.parse::<Country>().is_ok() {
            return acc.fail("codes_text", v.into(), format!("parse::<Country>({v:?}) is accepted"));
        }
    }
    // regions of the data files are countries
    if let Ok((public_db, school_db)) = dbs() {
        for region in public_db.keys().chain(school_db.keys()) {
            acc.case(true);
            if !codes.contains(region.as_str()) {
                acc.label("file_region_without_country");
            }
        }
        acc.sample(|| format!("{} codes; public file regions: {}, school file regions: {:?}", codes.len(), public_db.len(), school_db.keys().collect::<Vec<_>>()));
    }
}

fn day_is(oh: &OpeningHours, d: NaiveDate) -> Result<Option<RuleKind>, String> {
    let v: Vec<_> = guard(|| oh.schedule_at(d).into_iter().collect())?;
    Ok(if v.len() == 1 { Some(v[0].kind) } else { None })
}

/// Exhaustive (thorough): `PH` / `SH` under every country's calendars on every date of the span.
fn check_selector_all(index: u64, acc: &mut Acc) {
    let country = Country::ALL[(index / 2) as usize];
    let school = index % 2 == 1;
    let code = country.iso_code();
    let Ok((public_db, school_db)) = dbs() else { return };
    let empty = BTreeSet::new();
    let listed = if school { school_db } else { public_db }.get(code).unwrap_or(&empty);
    let expr = if school { "SH" } else { "PH" };
    let oh = OpeningHours::parse(expr).unwrap().with_context(Context::default().with_holidays(country.holidays()));
    let mut d = NaiveDate::from_ymd_opt(1998, 1, 1).unwrap();
    let last = NaiveDate::from_ymd_opt(2077, 12, 31).unwrap();
    while d <= last {
        let exp = if listed.contains(&d) { RuleKind::Open } else { RuleKind::Closed };
        match day_is(&oh, d) {
            Ok(Some(k)) if k == exp => {}
            other => return acc.fail("selectors_text", format!("{code} {expr} {d}"), format!("`{expr}` with the calendars of {code} on {d}: schedule is {other:?}, the data file says {exp:?} all day")),
        }
        acc.case(exp == RuleKind::Open);
        d = d.succ_opt().unwrap();
    }
}

fn extra(tier: Tier, _seed: u64) -> Vec<SubOutcome> {
    let n = Country::ALL.len() as u64 * 2;
    let mut v = vec![
        par_enumerate("calendars", "exhaustive: all 115 countries x {public, school}: ordered iteration and count() equal the set listed in the data file (read by the harness' own parser), contains() on every date 1990-01-01..2085-12-31, on every listed date and on 12 images of every listed date in other years (mirrored around year 0, shifted by 100 / 256 / 400 / 65 536 years, reduced modulo 100) and at the first / last representable dates equals membership, first_after of every date of that span and of every listed date is the next listed date; non-trivial = membership tests of listed dates", n, check_calendar),
        par_enumerate("codes", "exhaustive: all countries (code parses back to the country, codes unique) and all 676 two-letter strings in 7 spelling variants (lower case, padded, mixed case, doubled, truncated) plus malformed strings: accepted iff exactly a listed code; non-trivial = strings derived from a valid code", 1, check_codes),
    ];
    let _ = tier;
    {
        v.push(par_enumerate("selectors_all", "exhaustive: `PH` and `SH` under every country's calendars on every date 1998-01-01..2077-12-31: open all day iff the data file lists the date; non-trivial = listed dates", n, check_selector_all));
    }
    v
}

/// Generated: PH / SH / shifted PH under a drawn country's calendars around listed dates.
fn selectors(ch: &mut Choices, case: &mut Case) -> Result<(), String> {
    let (public_db, school_db) = dbs().as_ref().map_err(|e| format!("harness: {e}"))?;
    let country = Country::ALL[ch.draw(Country::ALL.len() as u32) as usize];
    let code = country.iso_code();
    let empty = BTreeSet::new();
    let public = public_db.get(code).unwrap_or(&empty);
    let school = school_db.get(code).unwrap_or(&empty);
    let (expr, listed, shift): (String, &BTreeSet<NaiveDate>, i64) = match ch.weighted(&[30, 20, 50]) {
        0 => ("PH".into(), public, 0),
        1 => ("SH".into(), school, 0),
        _ => {
            let k = ch.pick(&[1i64, -1, 2, -2, 7, -7, 30, -30]);
            (format!("PH {}{} day{}", if k > 0 { "+" } else { "-" }, k.abs(), if k.abs() > 1 { "s" } else { "" }), public, k)
        }
    };
    let oh = OpeningHours::parse(&expr)
        .map_err(|e| format!("`{expr}` rejected: {e}"))?
        .with_context(Context::default().with_holidays(country.holidays()));
    let mut any_open = false;
    for _ in 0..6 {
        let d = if !listed.is_empty() && ch.chance(75) {
            let base = *listed.iter().nth(ch.draw(listed.len().min(65000) as u32) as usize).unwrap();
            base + Duration::days(shift + ch.pick(&[0i64, 1, -1, 2, -2]))
        } else {
            NaiveDate::from_ymd_opt(1995 + ch.int(0, 85) as i32, 1 + ch.draw(12), 1 + ch.draw(28)).unwrap()
        };
        let exp = if listed.contains(&(d - Duration::days(shift))) { RuleKind::Open } else { RuleKind::Closed };
        case.key = format!("`{expr}` with the calendars of {code} on {d}");
        case.units += 1;
        match day_is(&oh, d) {
            Ok(Some(k)) if k == exp => {}
            other => return Err(format!("`{expr}` with the calendars of {code} on {d} ({:?}): schedule is {other:?}, the data file says {exp:?} all day", d.weekday())),
        }
        any_open |= exp == RuleKind::Open;
    }
    case.nontrivial = any_open;
    Ok(())
}

/// Generated near misses of valid codes: anything but exactly a listed code must be rejected.
fn near_codes(ch: &mut Choices, case: &mut Case) -> Result<(), String> {
    let codes: BTreeSet<&str> = Country::ALL.iter().map(|c| c.iso_code()).collect();
    let country = Country::ALL[ch.draw(Country::ALL.len() as u32) as usize];
    let code = country.iso_code();
    let extra = ch.pick(&["-", "_", " ", ".", "/", ":", ";", ",", "\0", "\n", "\t", "1", "A", "a", "é", "-TX", "-75", "_FR", " FR", "\u{200b}", "\u{0301}"]);
    let other = Country::ALL[ch.draw(Country::ALL.len() as u32) as usize].iso_code();
    let candidate = match ch.draw(10) {
        0 => format!("{code}{extra}"),
        1 => format!("{extra}{code}"),
        2 => format!("{}{extra}{}", &code[..1], &code[1..]),
        3 => format!("{code}{other}"),
        4 => format!("{code}-{other}"),
        5 => code.to_lowercase(),
        6 => format!("{}{}", &code[..1], code[1..].to_lowercase()),
        7 => country.name().to_string(),
        8 => format!("{code}{}", ch.pick(&["-", "--", "-X", "-XYZ-1", "- "])),
        _ => code.chars().rev().collect(),
    };
    case.key = format!("{candidate:?}.parse::<Country>()");
    let expected = codes.contains(candidate.as_str());
    case.nontrivial = !expected;
    let got = guard(|| candidate.parse::<Country>()).map_err(|p| format!("parsing {candidate:?} panicked: {p}"))?;
    match (got, expected) {
        (Ok(c), false) => Err(format!("{candidate:?} is not a listed ISO code but parses as {c:?}")),
        (Err(_), true) => Err(format!("{candidate:?} is a listed ISO code but is rejected")),
        (Ok(c), true) if c.iso_code() != candidate => Err(format!("{candidate:?} parses as {c:?}")),
        _ => Ok(()),
    }
}

fn calendars_text(text: &str, case: &mut Case) -> Result<(), String> {
    case.key = text.to_string();
    let mut parts = text.split_whitespace();
    let code = parts.next().unwrap_or("");
    let school = parts.next() == Some("school");
    let idx = Country::ALL.iter().position(|c| c.iso_code() == code).ok_or("unknown country in replay")?;
    let mut acc = Acc::default();
    check_calendar(idx as u64 * 2 + u64::from(school), &mut acc);
    match acc.failures.pop() {
        Some(f) => Err(f.message),
        None => Ok(()),
    }
}

fn codes_text(text: &str, case: &mut Case) -> Result<(), String> {
    case.key = text.to_string();
    let mut acc = Acc::default();
    check_codes(0, &mut acc);
    match acc.failures.pop() {
        Some(f) => Err(f.message),
        None => Ok(()),
    }
}

pub fn property() -> Property {
    let text_sub = |name: &'static str, f: crate::runner::TextFn| SubCheck {
        name,
        rule: "",
        f: |_, _| Ok(()),
        text_f: Some(f),
        cases_quick: 0,
        cases_thorough: 0,
        max_choices: 1,
    };
    Property {
        id: "C10",
        subs: vec![
            SubCheck {
                name: "selectors",
                rule: "generated: country x expression (`PH`, `SH`, `PH +-{1,2,7,30} days`) under Context::with_holidays(country.holidays()) x 6 dates (listed dates shifted by the offset, +-0/1/2 days, or uniform 1995..2080): open all day iff the data file lists the (shifted back) date; non-trivial = at least one expected-open day",
                f: selectors,
                text_f: None,
                cases_quick: 60_000,
                cases_thorough: 400_000,
                max_choices: 48,
            },
            SubCheck {
                name: "near_codes",
                rule: "generated near misses of every valid code (separator / digit / letter / control or combining character appended, prepended or inserted; subdivision-like suffixes `-TX`; two codes joined; lower and mixed case; the country's name; reversed code): accepted iff the string is exactly a listed code, and then as that country; non-trivial = a string that must be rejected",
                f: near_codes,
                text_f: None,
                cases_quick: 40_000,
                cases_thorough: 200_000,
                max_choices: 24,
            },
            text_sub("calendars_text", calendars_text),
            text_sub("codes_text", codes_text),
            text_sub("selectors_text", |t, c| {
                c.key = t.to_string();
                Ok(())
            }),
        ],
        extra: Some(extra),
        assumptions: vec![
            "the data files under /repo/opening-hours/data are the source of truth; they are read at run time from the working tree by the harness' own line parser",
            "exhaustive over all 115 countries x both kinds x every date 1990..2085 (and every listed date), on every run",
        ],
    }
}
