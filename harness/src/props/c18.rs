//! C18 — evaluation is pure: same answer across calls, clones and threads.
//!
//! In-process: generated query sets are answered sequentially, then again, on clones, and from
//! 2-8 threads released by a barrier, each walking its own permutation of the queries on shared
//! references or clones while also evaluating unrelated expressions. First use of the lazily
//! initialised tables: the binary re-executes itself as fresh child processes which race threads
//! through a given order of first uses and print digests.

use std::sync::{Arc, Barrier};

use chrono::{Duration, NaiveDate, NaiveDateTime, TimeZone};
use opening_hours::localization::{Coordinates, Country, TzLocation};
use opening_hours::{verif_hooks, Context, OpeningHours};

use crate::choice::Choices;
use crate::engine::Property;
use crate::gen::dates::DateGen;
use crate::gen::expr::Cfg;
use crate::props::common::gen_case;
use crate::runner::{guard, Case, Failure, Stats, SubCheck, SubOutcome, Tier};

#[derive(Clone)]
enum AnyOh {
    Plain(OpeningHours),
    Tz(OpeningHours<TzLocation<chrono_tz::Tz>>, chrono_tz::Tz),
}

type Recipe = Arc<dyn Fn() -> AnyOh + Send + Sync>;

#[derive(Clone, Copy, Debug)]
enum Op {
    State,
    NextChange,
    Schedule,
    Intervals,
    Print,
    Normalize,
}

#[derive(Clone, Copy, Debug)]
struct Query {
    oh: usize,
    op: Op,
    t: NaiveDateTime,
}

fn answer(ohs: &[AnyOh], q: &Query) -> String {
    verif_hooks::reset();
    verif_hooks::set_limit(Some(20_000));
    let r = guard(|| match &ohs[q.oh] {
        AnyOh::Plain(oh) => match q.op {
            Op::State => format!("{:?}", oh.state(q.t)),
            Op::NextChange => format!("{:?}", oh.next_change(q.t)),
            Op::Schedule => format!("{:?}", oh.schedule_at(q.t.date()).into_iter().collect::<Vec<_>>()),
            Op::Intervals => format!("{:?}", oh.iter_range(q.t, q.t + Duration::days(20)).take(12).collect::<Vec<_>>()),
            Op::Print => oh.to_string(),
            Op::Normalize => oh.normalize().to_string(),
        },
        AnyOh::Tz(oh, tz) => {
            let t = tz.from_utc_datetime(&q.t);
            match q.op {
                Op::State => format!("{:?}", oh.state(t)),
                Op::NextChange => format!("{:?}", oh.next_change(t)),
                Op::Schedule => format!("{:?}", oh.schedule_at(q.t.date()).into_iter().collect::<Vec<_>>()),
                Op::Intervals => format!("{:?}", oh.iter_range(t, t + Duration::days(20)).take(12).collect::<Vec<_>>()),
                Op::Print => oh.to_string(),
                Op::Normalize => oh.normalize().to_string(),
            }
        }
    });
    verif_hooks::set_limit(Some(crate::runner::DEFAULT_WORK_LIMIT));
    match r {
        Ok(s) => s,
        Err(p) if p.contains(verif_hooks::LIMIT_MARKER) => "TOO_FAR".into(),
        Err(p) => format!("PANIC {p}"),
    }
}

const CITIES: [(f64, f64); 8] = [
    (48.8535, 2.34839),
    (40.7128, -74.0060),
    (-33.8688, 151.2093),
    (35.6762, 139.6503),
    (52.52, 13.405),
    (19.4326, -99.1332),
    (55.6761, 12.5683),
    (53.3498, -6.2603),
];

fn concurrent(ch: &mut Choices, case: &mut Case) -> Result<(), String> {
    // expressions and contexts
    let n_oh = 2 + ch.draw(4) as usize;
    let mut ohs: Vec<AnyOh> = Vec::new();
    let mut texts = Vec::new();
    let mut pools = Vec::new();
    let mut sun_slots: Vec<usize> = Vec::new();
    // how to build an equal value from scratch (own parse, own context): the reference answers
    // come from such values, which share nothing with the values under test
    let mut recipes: Vec<Recipe> = Vec::new();
    let mut shared_days: Vec<Option<&'static [(i32, u32, u32)]>> = Vec::new();
    for _ in 0..n_oh {
        let cfg = Cfg { max_rules: 3, base_year: 2020, dense: ch.chance(40), ..Cfg::default() };
        let g = gen_case(ch, &cfg)?;
        pools.push(DateGen::new(&g.ast, 2020, &g.holidays.model));
        match ch.weighted(&[50, 25, 25]) {
            0 => {
                texts.push(g.text.clone());
                ohs.push(AnyOh::Plain(g.oh));
                let (text, holidays) = (g.text.clone(), g.holidays.holidays.clone());
                recipes.push(Arc::new(move || AnyOh::Plain(OpeningHours::parse(&text).unwrap().with_context(Context::default().with_holidays(holidays.clone())))));
            }
            1 => {
                // context inferred from coordinates: embedded holidays, country boundaries, zone
                // finder; most of these expressions use sun events, which depend on the place
                let (lat, lon) = ch.pick(&CITIES);
                let ctx = Context::from_coords(Coordinates::new(lat, lon).unwrap());
                let tz = *ctx.locale.get_timezone();
                let (oh, text) = if ch.chance(70) {
                    let t = ch.pick(&["sunrise-sunset", "dawn-dusk; Su off", "(sunrise+01:00)-(sunset-01:00) unknown", "sunset-sunrise", "Mo-Fr dawn-12:00,14:00-dusk; PH off"]);
                    sun_slots.push(ohs.len());
                    (OpeningHours::parse(t).unwrap(), t.to_string())
                } else {
                    (g.oh, g.text.clone())
                };
                texts.push(format!("{text} [from_coords({lat}, {lon})]"));
                ohs.push(AnyOh::Tz(oh.with_context(ctx), tz));
                recipes.push(Arc::new(move || {
                    let ctx = Context::from_coords(Coordinates::new(lat, lon).unwrap());
                    let tz = *ctx.locale.get_timezone();
                    AnyOh::Tz(OpeningHours::parse(&text).unwrap().with_context(ctx), tz)
                }));
                case.label("from_coords_context");
            }
            _ => {
                let country = Country::ALL[ch.draw(Country::ALL.len() as u32) as usize];
                texts.push(format!("{} [holidays of {country}]", g.text));
                ohs.push(AnyOh::Plain(g.oh.with_context(Context::default().with_holidays(country.holidays()))));
                let text = g.text.clone();
                recipes.push(Arc::new(move || AnyOh::Plain(OpeningHours::parse(&text).unwrap().with_context(Context::default().with_holidays(country.holidays())))));
                case.label("embedded_holidays_context");
            }
        }
        shared_days.push(None);
    }
    // a family: several values derived from one parsed value by `clone().with_context(..)`, so
    // that they share the expression; they differ by the place only, or by the holidays only
    if ch.chance(35) {
        let members = 2 + ch.draw(3) as usize;
        if ch.chance(60) {
            const DAYS: &[(i32, u32, u32)] = &[(2024, 6, 20), (2024, 6, 21), (2024, 12, 21)];
            let text: &'static str = ch.pick(&["sunrise-sunset", "dawn-dusk; Su off", "(sunrise+01:00)-(sunset-01:00) unknown", "sunset-sunrise", "Mo-Fr dawn-12:00,14:00-dusk; PH off"]);
            let country = if ch.chance(40) { Some(Country::ALL[ch.draw(Country::ALL.len() as u32) as usize]) } else { None };
            let holidays = move || country.map(Country::holidays).unwrap_or_default();
            let base = OpeningHours::parse(text).unwrap().with_context(Context::default().with_holidays(holidays()));
            let mut prev: Option<OpeningHours<TzLocation<chrono_tz::Tz>>> = None;
            for _ in 0..members {
                let (lat, lon) = ch.pick(&CITIES);
                let tz = ch.pick(&[chrono_tz::UTC, chrono_tz::Europe::Paris, chrono_tz::America::New_York, chrono_tz::Asia::Tokyo]);
                let mk_ctx = move || Context::default().with_holidays(holidays()).with_locale(TzLocation::new(tz).with_coords(Coordinates::new(lat, lon).unwrap()));
                // derived from the parsed value or, in a chain, from the previous member
                let derived = match &prev {
                    Some(p) if ch.chance(50) => p.clone().with_context(mk_ctx()),
                    _ => base.clone().with_context(mk_ctx()),
                };
                prev = Some(derived.clone());
                sun_slots.push(ohs.len());
                texts.push(format!("{text} [family member: {tz} at ({lat}, {lon}), holidays of {country:?}]"));
                ohs.push(AnyOh::Tz(derived, tz));
                recipes.push(Arc::new(move || AnyOh::Tz(OpeningHours::parse(text).unwrap().with_context(mk_ctx()), tz)));
                pools.push(pools[0].clone());
                shared_days.push(Some(DAYS));
            }
            case.label("family_same_expression_different_places");
        } else {
            const DAYS: &[(i32, u32, u32)] = &[(2024, 12, 25), (2024, 12, 26), (2024, 5, 1), (2024, 7, 4), (2024, 7, 14), (2024, 10, 3), (2024, 1, 1)];
            let text: &'static str = ch.pick(&["Mo-Su 10:00-18:00; PH off", "PH 10:00-12:00", "PH,SH off; Mo-Fr 09:00-17:00 open \"c\"", "Mo-Fr 08:00-20:00; PH -1 day 08:00-12:00"]);
            let base = OpeningHours::parse(text).unwrap();
            let mut prev: Option<OpeningHours> = None;
            for _ in 0..members {
                let country = ch.pick(&[Country::FR, Country::US, Country::DE, Country::GB, Country::JP, Country::BR, Country::IE]);
                let derived = match &prev {
                    Some(p) if ch.chance(50) => p.clone().with_context(Context::default().with_holidays(country.holidays())),
                    _ => base.clone().with_context(Context::default().with_holidays(country.holidays())),
                };
                prev = Some(derived.clone());
                texts.push(format!("{text} [family member: holidays of {country}]"));
                ohs.push(AnyOh::Plain(derived));
                recipes.push(Arc::new(move || AnyOh::Plain(OpeningHours::parse(text).unwrap().with_context(Context::default().with_holidays(country.holidays())))));
                pools.push(pools[0].clone());
                shared_days.push(Some(DAYS));
            }
            case.label("family_same_expression_different_holidays");
        }
    }
    let n_oh = ohs.len();
    let n_q = 8 + ch.draw(20) as usize;
    let queries: Vec<Query> = (0..n_q)
        .map(|_| {
            let oh = ch.draw(n_oh as u32) as usize;
            let op = ch.pick(&[Op::State, Op::NextChange, Op::Schedule, Op::Intervals, Op::State, Op::NextChange, Op::Print, Op::Normalize]);
            // sun-event expressions are probed on a handful of shared days, so that different
            // places are evaluated on the same day by the same thread
            let date = if let Some(days) = shared_days[oh] {
                let (y, m, d) = ch.pick(days);
                NaiveDate::from_ymd_opt(y, m, d).unwrap()
            } else if sun_slots.contains(&oh) {
                NaiveDate::from_ymd_opt(2024, 6, 20).unwrap() + Duration::days(ch.int(0, 2))
            } else {
                pools[oh].draw(ch, true)
            };
            let t = date.and_hms_opt(ch.draw(24), ch.draw(60), 0).unwrap();
            Query { oh, op, t }
        })
        .collect();
    case.key = format!("{} expressions [{}], {} queries", n_oh, texts.join(" | "), n_q);
    if sun_slots.len() >= 2 {
        case.label("several_places_with_sun_events");
    }
    // sequential reference, repeated calls, clones
    // reference: every query answered by a *fresh thread* (no thread-local history), then the
    // same queries in order on this thread, which has a history
    let reference: Vec<String> = queries
        .iter()
        .map(|q| {
            std::thread::scope(|s| {
                s.spawn(|| {
                    let fresh = [recipes[q.oh]()];
                    answer(&fresh, &Query { oh: 0, ..*q })
                })
                .join()
                .expect("reference thread")
            })
        })
        .collect();
    if let Some(i) = reference.iter().position(|r| r.starts_with("PANIC")) {
        return Err(format!("query {:?} on `{}`: {}", queries[i], texts[queries[i].oh], reference[i]));
    }
    for (i, q) in queries.iter().enumerate() {
        let here = answer(&ohs, q);
        if here != reference[i] {
            return Err(format!("query {q:?} on `{}` answered {here:?} after other evaluations on the same thread, but {:?} on a fresh thread", texts[q.oh], reference[i]));
        }
    }
    for (i, q) in queries.iter().enumerate().rev() {
        let again = answer(&ohs, q);
        if again != reference[i] {
            return Err(format!("query {q:?} on `{}` answered differently when repeated: first {:?}, then {again:?}", texts[q.oh], reference[i]));
        }
    }
    let clones: Vec<AnyOh> = ohs.to_vec();
    for (i, q) in queries.iter().enumerate() {
        let on_clone = answer(&clones, q);
        if on_clone != reference[i] {
            return Err(format!("query {q:?} on a clone of `{}`: {on_clone:?}, on the original {:?}", texts[q.oh], reference[i]));
        }
    }
    // concurrent evaluation
    let threads = 2 + ch.draw(7) as usize;
    let shared = Arc::new(ohs);
    let queries = Arc::new(queries);
    let barrier = Arc::new(Barrier::new(threads));
    let plans: Vec<(usize, usize, bool)> = (0..threads)
        .map(|_| (ch.draw(n_q as u32) as usize, 1 + 2 * ch.draw(6) as usize, ch.chance(50)))
        .collect();
    let unrelated = ["Mo-Fr 08:00-18:00; PH off", "easter -2 days-easter +1 day sunrise-sunset", "week 1-53/2 Sa[1] 10:00-26:00 || unknown \"x\""];
    let results: Vec<Vec<(usize, String)>> = std::thread::scope(|scope| {
        let handles: Vec<_> = plans
            .iter()
            .map(|(start, stride, use_clone)| {
                let shared = Arc::clone(&shared);
                let queries = Arc::clone(&queries);
                let barrier = Arc::clone(&barrier);
                scope.spawn(move || {
                    let local: Vec<AnyOh> = if *use_clone { shared.to_vec() } else { Vec::new() };
                    let ohs: &[AnyOh] = if *use_clone { &local } else { &shared };
                    barrier.wait();
                    let n = queries.len();
                    let mut out = Vec::with_capacity(n);
                    // stride coprime with n is not required: visit start + k*stride mod n, then the rest
                    let mut seen = vec![false; n];
                    let mut idx = *start % n;
                    for k in 0..n {
                        if seen[idx] {
                            idx = seen.iter().position(|s| !*s).unwrap();
                        }
                        seen[idx] = true;
                        out.push((idx, answer(ohs, &queries[idx])));
                        if k % 3 == 0 {
                            // interleave an unrelated evaluation
                            let other = OpeningHours::parse(unrelated[k % unrelated.len()]).unwrap();
                            let _ = guard(|| other.state(NaiveDate::from_ymd_opt(2024, 3, 1 + (k % 28) as u32).unwrap().and_hms_opt(9, 0, 0).unwrap()));
                        }
                        idx = (idx + *stride) % n;
                    }
                    out
                })
            })
            .collect();
        handles.into_iter().map(|h| h.join().expect("worker thread panicked")).collect()
    });
    for (tid, res) in results.iter().enumerate() {
        for (i, ans) in res {
            if *ans != reference[*i] {
                return Err(format!(
                    "query {:?} on `{}` answered {ans:?} from thread {tid} of {threads} ({}), sequentially {:?}",
                    queries[*i],
                    texts[queries[*i].oh],
                    if plans[tid].2 { "on a clone" } else { "on the shared value" },
                    reference[*i]
                ));
            }
        }
    }
    case.units = (n_q * (threads + 3)) as u64;
    case.nontrivial = threads >= 2 && reference.iter().filter(|r| *r != "TOO_FAR").count() >= 4;
    Ok(())
}

// ---- threads hammering date-keyed computations on colliding years --------------------------

/// Several threads evaluate, at the same time and for hundreds of rounds, expressions whose
/// answer depends on a per-year computation (Easter, ISO weeks, leap days, embedded holidays),
/// each thread in its own year; the years are spaced by a multiple of a power of two (or of 100 /
/// 400), so that they collide in any direct-mapped or modulo-indexed memo shared by the threads.
/// Every answer must equal the one a fresh thread gives on a fresh value.
fn hammer(ch: &mut Choices, case: &mut Case) -> Result<(), String> {
    const EXPRS: [&str; 8] = [
        "easter",
        "easter -2 days-easter +1 day 10:00-18:00",
        "24/7; easter off",
        "easter-Dec 31",
        "week 53; week 1 Mo unknown",
        "Feb 29; Mo[5] 10:00-12:00",
        "PH off; Mo-Fr 09:00-17:00",
        "Jan 1-easter -1 day",
    ];
    let threads = 2 + ch.draw(7) as usize;
    let stride = ch.pick(&[64i32, 64, 128, 256, 32, 16, 512, 100, 400, 19, 28]);
    let base = 1960 + ch.int(0, 90) as i32;
    let same_expr = ch.chance(50).then(|| ch.pick(&EXPRS));
    let rounds = 150 + 50 * ch.draw(4) as usize;
    let france = Country::FR.holidays();
    struct Job {
        text: &'static str,
        year: i32,
        queries: Vec<(Op, NaiveDateTime)>,
    }
    let mut jobs: Vec<Job> = Vec::new();
    for i in 0..threads {
        let year = (base + stride * ch.int(0, 6) as i32 + ch.int(0, 1) as i32).min(9990);
        let text = same_expr.unwrap_or_else(|| ch.pick(&EXPRS));
        let e = crate::model::easter(year);
        let mut queries = Vec::new();
        for _ in 0..4 {
            let date = match ch.draw(4) {
                0 => e + Duration::days(ch.int(-9, 9)),
                1 => NaiveDate::from_ymd_opt(year, 1, 1).unwrap() + Duration::days(ch.int(0, 9)),
                2 => NaiveDate::from_ymd_opt(year, 12, 31).unwrap() - Duration::days(ch.int(0, 9)),
                _ => NaiveDate::from_ymd_opt(year, 1, 1).unwrap() + Duration::days(ch.int(0, 364)),
            };
            queries.push((ch.pick(&[Op::State, Op::NextChange, Op::Schedule, Op::NextChange]), date.and_hms_opt(ch.draw(24), 0, 0).unwrap()));
        }
        let _ = i;
        jobs.push(Job { text, year, queries });
    }
    case.key = format!("{} threads x {rounds} rounds, years {:?}, expressions {:?}", threads, jobs.iter().map(|j| j.year).collect::<Vec<_>>(), jobs.iter().map(|j| j.text).collect::<Vec<_>>());
    let build = |text: &str| AnyOh::Plain(OpeningHours::parse(text).unwrap().with_context(Context::default().with_holidays(france.clone())));
    // reference: every query on a fresh value in a fresh thread, nothing else running
    let reference: Vec<Vec<String>> = jobs
        .iter()
        .map(|j| {
            j.queries
                .iter()
                .map(|(op, t)| std::thread::scope(|s| s.spawn(|| answer(&[build(j.text)], &Query { oh: 0, op: *op, t: *t })).join().expect("reference thread")))
                .collect()
        })
        .collect();
    // one shared value per distinct expression
    let shared: Vec<AnyOh> = jobs.iter().map(|j| build(j.text)).collect();
    let barrier = Barrier::new(threads);
    let failures: Vec<Option<String>> = std::thread::scope(|scope| {
        let handles: Vec<_> = jobs
            .iter()
            .enumerate()
            .map(|(i, job)| {
                let (shared, reference, barrier) = (&shared, &reference, &barrier);
                scope.spawn(move || {
                    barrier.wait();
                    for round in 0..rounds {
                        for (k, (op, t)) in job.queries.iter().enumerate() {
                            let got = answer(shared, &Query { oh: i, op: *op, t: *t });
                            if got != reference[i][k] {
                                return Some(format!(
                                    "`{}` {op:?} at {t} answered {got:?} on thread {i} in round {round}, while {} other threads evaluate other years; a fresh thread alone answers {:?}",
                                    job.text,
                                    reference.len() - 1,
                                    reference[i][k]
                                ));
                            }
                        }
                    }
                    None
                })
            })
            .collect();
        handles.into_iter().map(|h| h.join().expect("hammer thread panicked")).collect()
    });
    if let Some(m) = failures.into_iter().flatten().next() {
        return Err(m);
    }
    case.units = (threads * rounds * 4) as u64;
    let years: std::collections::BTreeSet<i32> = jobs.iter().map(|j| j.year).collect();
    case.nontrivial = years.len() >= 2;
    if [64, 128, 256, 32, 16, 512].contains(&stride) {
        case.label("years_spaced_by_a_power_of_two");
    }
    Ok(())
}

// ---- first use of the lazily initialised tables --------------------------------------------

/// The five first-use operations; each returns a digest string.
pub fn first_use_op(op: usize) -> String {
    match op {
        // embedded public holidays
        0 => {
            let mut s = String::new();
            for c in [Country::FR, Country::US, Country::DE, Country::JP, Country::BR] {
                let h = c.holidays();
                let oh = OpeningHours::parse("PH").unwrap().with_context(Context::default().with_holidays(h.clone()));
                let open_days = (0..400).filter(|k| oh.is_open(NaiveDate::from_ymd_opt(2024, 1, 1).unwrap().and_hms_opt(12, 0, 0).unwrap() + Duration::days(*k))).count();
                s.push_str(&format!("{c}:{}:{:?}:{open_days};", h.get_public().count(), h.get_public().first_after(NaiveDate::from_ymd_opt(2024, 7, 1).unwrap())));
            }
            s
        }
        // embedded school holidays
        1 => {
            let mut s = String::new();
            for c in [Country::US, Country::NL, Country::DK, Country::FR] {
                let h = c.holidays();
                s.push_str(&format!("{c}:{}:{:?};", h.get_school().count(), h.get_school().iter().next()));
            }
            s
        }
        // country boundaries
        2 => CITIES
            .iter()
            .map(|(lat, lon)| format!("{:?};", Country::try_from_coords(Coordinates::new(*lat, *lon).unwrap())))
            .collect(),
        // zone finder and zone-by-name map
        3 => CITIES
            .iter()
            .map(|(lat, lon)| format!("{};", TzLocation::from_coords(Coordinates::new(*lat, *lon).unwrap()).get_timezone()))
            .collect(),
        // sun events at two other places on the days used by operation 4
        5 => {
            let mut s = String::new();
            for (lat, lon) in [(35.6762, 139.6503), (64.1466, -21.9426)] {
                let oh = OpeningHours::parse("sunrise-sunset; dusk-dawn unknown")
                    .unwrap()
                    .with_context(Context::default().with_locale(TzLocation::new(chrono_tz::UTC).with_coords(Coordinates::new(lat, lon).unwrap())));
                for day in 28..31 {
                    s.push_str(&format!("{:?};", oh.schedule_at(NaiveDate::from_ymd_opt(2024, 3, day).unwrap()).into_iter().map(|r| (r.range, r.kind)).collect::<Vec<_>>()));
                }
            }
            s
        }
        // parser (Easter warning `Once`) and an evaluation through everything
        _ => {
            let oh = OpeningHours::parse("easter -2 days-easter +1 day 10:00-18:00; PH off; sunrise-sunset unknown").unwrap();
            let ctx = Context::from_coords(Coordinates::new(48.8535, 2.34839).unwrap());
            let tz = *ctx.locale.get_timezone();
            let oh = oh.with_context(ctx);
            let t = tz.with_ymd_and_hms(2024, 3, 29, 8, 0, 0).unwrap();
            format!("{:?};{:?};{:?}", oh.state(t), oh.next_change(t), oh.iter_range(t, t + Duration::days(3)).map(|i| (i.range, i.kind)).collect::<Vec<_>>())
        }
    }
}

pub const N_OPS: usize = 6;

/// Child process: `threads` threads race through the first uses in the order given by `order`
/// (thread k starts at position k of the order); prints one line per (thread, op).
pub fn child_main(order: &[usize], threads: usize) {
    let barrier = Arc::new(Barrier::new(threads));
    let order: Arc<Vec<usize>> = Arc::new(order.to_vec());
    let handles: Vec<_> = (0..threads)
        .map(|k| {
            let barrier = Arc::clone(&barrier);
            let order = Arc::clone(&order);
            std::thread::spawn(move || {
                barrier.wait();
                let mut out = Vec::new();
                for i in 0..order.len() {
                    let op = order[(i + k) % order.len()];
                    let t0 = std::time::Instant::now();
                    let digest = first_use_op(op);
                    out.push((op, digest, t0.elapsed().as_micros()));
                }
                out
            })
        })
        .collect();
    for (k, h) in handles.into_iter().enumerate() {
        for (op, digest, micros) in h.join().expect("child thread panicked") {
            println!("{k}\t{op}\t{micros}\t{digest}");
        }
    }
}

fn permutations() -> Vec<Vec<usize>> {
    fn rec(prefix: &mut Vec<usize>, rest: &mut Vec<usize>, out: &mut Vec<Vec<usize>>) {
        if rest.is_empty() {
            out.push(prefix.clone());
            return;
        }
        for i in 0..rest.len() {
            let x = rest.remove(i);
            prefix.push(x);
            rec(prefix, rest, out);
            prefix.pop();
            rest.insert(i, x);
        }
    }
    let mut out = Vec::new();
    rec(&mut Vec::new(), &mut (0..N_OPS).collect(), &mut out);
    out
}

fn first_use(tier: Tier, seed: u64) -> SubOutcome {
    let start = std::time::Instant::now();
    let reference: Vec<String> = (0..N_OPS).map(first_use_op).collect();
    let perms = permutations();
    let mut runs: Vec<(Vec<usize>, usize)> = Vec::new();
    match tier {
        Tier::Thorough => {
            for p in &perms {
                for t in [2usize, 8] {
                    runs.push((p.clone(), t));
                }
            }
        }
        Tier::Quick => {
            // 24 orders drawn from the seed (every op is first in at least four of them)
            for i in 0..24u64 {
                let idx = ((seed.wrapping_mul(7919).wrapping_add(i * 5)) % perms.len() as u64) as usize;
                let mut p = perms[idx].clone();
                p.rotate_left((i % N_OPS as u64) as usize);
                runs.push((p, if i % 2 == 0 { 8 } else { 2 }));
            }
        }
    }
    let exe = std::env::current_exe().expect("current_exe");
    let mut stats = Stats::default();
    let mut failures: Vec<Failure> = Vec::new();
    let chunks: Vec<&[(Vec<usize>, usize)]> = runs.chunks(8).collect();
    for chunk in chunks {
        let children: Vec<_> = chunk
            .iter()
            .map(|(order, threads)| {
                let order_s: Vec<String> = order.iter().map(|x| x.to_string()).collect();
                std::process::Command::new(&exe)
                    .args(["c18-child", &order_s.join(","), &threads.to_string()])
                    .stdout(std::process::Stdio::piped())
                    .stderr(std::process::Stdio::piped())
                    .spawn()
            })
            .collect();
        for ((order, threads), child) in chunk.iter().zip(children) {
            let text = format!("{} {threads}", order.iter().map(|x| x.to_string()).collect::<Vec<_>>().join(","));
            stats.cases += 1;
            let output = match child.and_then(|c| c.wait_with_output()) {
                Ok(o) => o,
                Err(e) => {
                    failures.push(Failure { sub: "first_use_text".into(), choices: vec![], text: Some(text.clone()), key: text, message: format!("HARNESS-ABORT: cannot run child: {e}") });
                    continue;
                }
            };
            let stdout = String::from_utf8_lossy(&output.stdout);
            let mut contended = 0;
            let mut lines = 0;
            let mut first_slow: std::collections::BTreeMap<usize, usize> = Default::default();
            let mut bad: Option<String> = None;
            for line in stdout.lines() {
                let parts: Vec<&str> = line.splitn(4, '\t').collect();
                let [thread, op, micros, digest] = parts.as_slice() else { continue };
                lines += 1;
                let op: usize = op.parse().unwrap_or(99);
                if micros.parse::<u64>().unwrap_or(0) > 2000 {
                    *first_slow.entry(op).or_default() += 1;
                }
                if reference.get(op).map(String::as_str) != Some(*digest) {
                    bad = Some(format!("first-use order {order:?} with {threads} threads: thread {thread} got for table #{op} the digest {digest:?}, a sequential run gives {:?}", reference.get(op)));
                }
            }
            for (_, n) in first_slow {
                if n >= 2 {
                    contended += 1;
                }
            }
            stats.units += lines as u64;
            if !output.status.success() || lines != threads * N_OPS {
                bad = Some(format!("first-use order {order:?} with {threads} threads: child exited with {:?} after {lines} of {} answers; stderr: {}", output.status.code(), threads * N_OPS, String::from_utf8_lossy(&output.stderr).lines().take(5).collect::<Vec<_>>().join(" | ")));
            }
            if contended > 0 {
                stats.nontrivial_total += 1;
                stats.distinct_counted += 1;
                *stats.labels.entry("threads_contended_for_an_uninitialised_table").or_default() += 1;
            }
            if stats.samples.len() < 3 {
                stats.samples.push(format!("fresh process, {threads} threads, first-use order {order:?} (rotated per thread)"));
            }
            if let Some(message) = bad {
                failures.push(Failure { sub: "first_use_text".into(), choices: vec![], text: Some(text.clone()), key: text, message });
            }
        }
    }
    failures.truncate(3);
    SubOutcome {
        name: "first_use",
        rule: "fresh child processes (the harness re-executes itself): 2 or 8 threads released by a barrier walk a given order of first uses of the lazily initialised tables (public / school holiday databases, country boundaries, zone finder + zone-by-name map, parser incl. the Easter warning Once) and of sun-event evaluation at different places on the same days, thread k starting at position k; every digest must equal the one of a sequential run; thorough: all 720 orders x {2, 8} threads, quick: 24 orders drawn from the seed; non-trivial = at least two threads spent > 2 ms in the same table's first use (timing is used for this label only, never for the verdict)",
        stats,
        failures,
        wall_s: start.elapsed().as_secs_f64(),
        exhaustive: tier == Tier::Thorough,
    }
}

fn first_use_text(text: &str, case: &mut Case) -> Result<(), String> {
    // replays run the order in-process (tables may already be initialised) — the digest
    // comparison still applies
    case.key = text.to_string();
    let reference: Vec<String> = (0..N_OPS).map(first_use_op).collect();
    let again: Vec<String> = (0..N_OPS).rev().map(first_use_op).collect();
    let mut again = again;
    again.reverse();
    if reference != again {
        return Err("first-use digests differ between two sequential runs".into());
    }
    Ok(())
}

/// What the coordinate lookups answer for a place must not depend on what was looked up before, nor on how often,
/// nor on the thread: histories of lookups over a few places that lie a few metres apart on either side of a zone /
/// country border (`crate::geo`), with places elsewhere in between, and repeated lookups at junctions where a point
/// of no supported country has several countries within a kilometre.
fn lookup_histories(ch: &mut Choices, case: &mut Case) -> Result<(), String> {
    use crate::geo::{self, P};
    let g = geo::geo();
    let eval = |p: P| -> String {
        verif_hooks::reset();
        verif_hooks::set_limit(Some(2_000));
        let r = guard(|| {
            let ctx = Context::from_coords(geo::coords(p));
            let tz = *ctx.locale.get_timezone();
            let oh = OpeningHours::parse("sunrise-sunset; PH off").unwrap().with_context(ctx);
            let t = tz.from_utc_datetime(&NaiveDate::from_ymd_opt(2024, 6, 1).unwrap().and_hms_opt(0, 0, 0).unwrap());
            format!("{:?}", oh.iter_range(t, t + Duration::days(40)).take(8).map(|i| (i.range, i.kind)).collect::<Vec<_>>())
        });
        verif_hooks::set_limit(Some(crate::runner::DEFAULT_WORK_LIMIT));
        r.unwrap_or_else(|p| format!("PANIC {p}"))
    };
    let lookup = |p: P, op: u32| -> String {
        match op {
            0 => geo::tz_of(p).to_string(),
            1 => format!("{:?}", geo::country_of(p)),
            _ => eval(p),
        }
    };
    let op_name = |op: u32| ["time zone", "country", "evaluation under Context::from_coords"][op as usize];
    // every case starts from the same recent history (two lookups far from every place it uses), so that a case is
    // a function of its own choices even if the library keeps state between lookups
    std::hint::black_box((lookup((-48.5, -150.5), 0), lookup((-48.5, -150.5), 1), lookup((-47.5, -151.5), 0), lookup((-47.5, -151.5), 1)));
    if ch.chance(25) && !g.junctions.is_empty() {
        // a point of no country with several countries around it: asked many times, then from several threads
        let j = &g.junctions[ch.draw(g.junctions.len() as u32) as usize];
        let p = j.none_points[ch.draw(j.none_points.len() as u32) as usize];
        // ... and its neighbours a few hundred metres around (the discovery grid is only one sample of the cell)
        let p = (p.0 + f64::from(ch.int(-4, 4) as i32) * 0.0005, p.1 + f64::from(ch.int(-4, 4) as i32) * 0.0005);
        case.key = format!("junction of {:?} at ({}, {})", j.countries, p.0, p.1);
        case.label("junction_of_countries");
        let first = lookup(p, 1);
        for k in 0..24 {
            case.units += 1;
            let again = lookup(p, 1);
            if again != first {
                return Err(format!("Country::try_from_coords({}, {}) answered {first} and, asked again (call {}), {again}", p.0, p.1, k + 2));
            }
        }
        let ev = lookup(p, 2);
        let n = 2 + ch.draw(3) as usize;
        let barrier = Arc::new(Barrier::new(n));
        let handles: Vec<_> = (0..n)
            .map(|_| {
                let b = barrier.clone();
                std::thread::spawn(move || {
                    b.wait();
                    (0..8).map(|_| format!("{:?}", geo::country_of(p))).collect::<Vec<_>>()
                })
            })
            .collect();
        for h in handles {
            for a in h.join().map_err(|_| "lookup thread panicked".to_string())? {
                if a != first {
                    return Err(format!("Country::try_from_coords({}, {}) answered {first} on the main thread and {a} on another thread", p.0, p.1));
                }
            }
        }
        if lookup(p, 2) != ev {
            return Err(format!("evaluation under Context::from_coords({}, {}) differs between two calls", p.0, p.1));
        }
        case.nontrivial = j.countries.len() >= 2;
        return Ok(());
    }
    // a pool of places: both sides of one or two borders and one or two places elsewhere
    let mut pool: Vec<P> = Vec::new();
    for _ in 0..1 + ch.draw(2) {
        let (a, b) = if ch.chance(70) { g.zone_pairs[ch.draw(g.zone_pairs.len() as u32) as usize] } else { g.country_pairs[ch.draw(g.country_pairs.len() as u32) as usize] };
        pool.push(a);
        pool.push(b);
    }
    for _ in 0..1 + ch.draw(2) {
        pool.push(CITIES[ch.draw(CITIES.len() as u32) as usize]);
    }
    let steps = 6 + ch.draw(8);
    let mut seen: Vec<(usize, u32, String, String)> = Vec::new(); // place, op, answer, what came before
    let mut previous = String::from("nothing");
    let mut revisits = 0;
    case.key = format!("places {pool:?}");
    for _ in 0..steps {
        let i = ch.draw(pool.len() as u32) as usize;
        let op = ch.weighted(&[45, 25, 30]) as u32;
        case.units += 1;
        let a = lookup(pool[i], op);
        if let Some(old) = seen.iter().find(|s| s.0 == i && s.1 == op) {
            revisits += 1;
            if old.2 != a {
                return Err(format!(
                    "{} of ({}, {}) is {} when asked after {}, but {} when asked after {}",
                    op_name(op), pool[i].0, pool[i].1, cut(&old.2), old.3, cut(&a), previous
                ));
            }
        } else {
            seen.push((i, op, a, previous.clone()));
        }
        previous = format!("the {} of ({}, {})", op_name(op), pool[i].0, pool[i].1);
    }
    case.label("border_places");
    case.nontrivial = revisits >= 2;
    Ok(())
}

fn cut(s: &str) -> String {
    if s.len() > 160 {
        format!("{}...", s.chars().take(160).collect::<String>())
    } else {
        s.to_string()
    }
}

/// Zones that skip an hour (or half an hour, or two) on the same local date, evaluated one after the other on one
/// thread with spans starting inside the skipped stretch of one of them: the answer for a zone must not depend on
/// which zone was evaluated before (S-C18-g remembers the last gap it resolved, per thread, without its zone).
fn gap_histories(ch: &mut Choices, case: &mut Case) -> Result<(), String> {
    use crate::props::c09::{offset_at, transitions_step};
    const FAMILIES: &[&[&str]] = &[
        &["Europe/London", "Europe/Lisbon", "Europe/Paris", "Europe/Berlin", "Europe/Athens", "Europe/Helsinki", "Antarctica/Troll", "Atlantic/Azores", "Europe/Chisinau", "Asia/Beirut"],
        &["Australia/Sydney", "Australia/Lord_Howe", "Australia/Adelaide", "Australia/Melbourne", "Australia/Hobart", "Antarctica/Macquarie", "Australia/Broken_Hill"],
        &["America/New_York", "America/Chicago", "America/Denver", "America/Los_Angeles", "America/St_Johns", "America/Halifax", "America/Anchorage", "America/Adak", "America/Havana", "America/Toronto"],
    ];
    let family = FAMILIES[ch.draw(FAMILIES.len() as u32) as usize];
    let year = 2008 + ch.draw(23) as i32;
    let a = NaiveDate::from_ymd_opt(year, 1, 1).unwrap().and_hms_opt(0, 0, 0).unwrap();
    let b = NaiveDate::from_ymd_opt(year + 1, 1, 1).unwrap().and_hms_opt(0, 0, 0).unwrap();
    // (zone, local start of the skipped stretch, local end)
    let mut gaps: Vec<(chrono_tz::Tz, NaiveDateTime, NaiveDateTime)> = Vec::new();
    for name in family {
        let tz: chrono_tz::Tz = name.parse().map_err(|_| format!("harness: unknown zone {name}"))?;
        for t in transitions_step(tz, a, b, Duration::hours(6)) {
            let (before, after) = (offset_at(tz, t - Duration::seconds(1)), offset_at(tz, t));
            if after > before {
                gaps.push((tz, t + Duration::seconds(before), t + Duration::seconds(after)));
            }
        }
    }
    if gaps.is_empty() {
        case.exclude("no-gap-found");
        return Ok(());
    }
    // the zones skipping time on the local date of a drawn gap
    let day = gaps[ch.draw(gaps.len() as u32) as usize].1.date();
    let pool: Vec<_> = gaps.into_iter().filter(|g| g.1.date() == day || g.2.date() == day).collect();
    let n = 3 + ch.draw(5) as usize;
    let mut queries: Vec<(chrono_tz::Tz, String, Op)> = Vec::new();
    for _ in 0..n {
        let (tz, _, _) = pool[ch.draw(pool.len() as u32) as usize];
        // a wall-clock minute inside the skipped stretch of one of the zones of the pool
        let (_, lo, hi) = pool[ch.draw(pool.len() as u32) as usize];
        let minutes = (hi - lo).num_minutes().max(1);
        let inside = lo + Duration::minutes(ch.int(0, minutes - 1));
        let hm = format!("{:02}:{:02}", chrono::Timelike::hour(&inside), chrono::Timelike::minute(&inside));
        let expr = match ch.draw(4) {
            0 => format!("{hm}-10:00"),
            1 => format!("00:00-{hm}"),
            2 => format!("00:30-{hm} open, {hm}-12:00 unknown"),
            _ => format!("{} {} {hm}-08:00", ["Jan", "Feb", "Mar", "Apr", "May", "Jun", "Jul", "Aug", "Sep", "Oct", "Nov", "Dec"][chrono::Datelike::month0(&inside.date()) as usize], chrono::Datelike::day(&inside.date())),
        };
        queries.push((tz, expr, if ch.chance(50) { Op::NextChange } else { Op::Intervals }));
    }
    let t = day.pred_opt().unwrap().and_hms_opt(ch.draw(24), 0, 0).unwrap();
    let build = |tz: chrono_tz::Tz, expr: &str| -> AnyOh {
        AnyOh::Tz(OpeningHours::parse(expr).unwrap().with_context(Context::default().with_locale(TzLocation::new(tz))), tz)
    };
    case.key = format!("{day}: {}", queries.iter().map(|(tz, e, op)| format!("{op:?} `{e}` @ {tz}")).collect::<Vec<_>>().join("; "));
    // on this thread, in order
    let here: Vec<String> = queries
        .iter()
        .map(|(tz, expr, op)| answer(&[build(*tz, expr)], &Query { oh: 0, op: *op, t }))
        .collect();
    // each one alone on a fresh thread
    for (i, (tz, expr, op)) in queries.iter().enumerate() {
        let (tz, expr, op) = (*tz, expr.clone(), *op);
        case.units += 1;
        let alone = std::thread::spawn(move || {
            let oh = AnyOh::Tz(OpeningHours::parse(&expr).unwrap().with_context(Context::default().with_locale(TzLocation::new(tz))), tz);
            answer(&[oh], &Query { oh: 0, op, t })
        })
        .join()
        .map_err(|_| "reference thread panicked".to_string())?;
        if alone != here[i] {
            return Err(format!(
                "query #{i} ({:?} `{}` @ {} from {t} UTC) answers {} after the queries before it on the same thread, but {} alone on a fresh thread",
                queries[i].2, queries[i].1, queries[i].0, cut(&here[i]), cut(&alone)
            ));
        }
    }
    let zones: std::collections::BTreeSet<&str> = queries.iter().map(|q| q.0.name()).collect();
    case.nontrivial = zones.len() >= 2;
    case.label("zones_skipping_time_on_the_same_date");
    Ok(())
}

fn extra(tier: Tier, seed: u64) -> Vec<SubOutcome> {
    vec![first_use(tier, seed)]
}

pub fn property() -> Property {
    Property {
        id: "C18",
        subs: vec![
            SubCheck {
                name: "concurrent",
                rule: "2-5 generated expressions (plain, with a country's embedded calendars, or with Context::from_coords) and 8-27 queries (state, next_change, schedule_at, 12 intervals, to_string, normalize) answered sequentially, again in reverse order, on clones, and then by 2-8 threads released together, each walking its own permutation on the shared values or on its own clones while also parsing and evaluating unrelated expressions: all answers must equal the sequential ones; non-trivial = at least 4 answered queries raced by >= 2 threads",
                f: concurrent,
                text_f: None,
                cases_quick: 1_500,
                cases_thorough: 40_000,
                max_choices: 1050,
            },
            SubCheck {
                name: "hammer",
                rule: "2-8 threads released together, each evaluating (state, next_change, schedule_at; 4 queries x 150-300 rounds) one of 8 expressions whose answer depends on a per-year computation (Easter, ISO weeks, leap days, embedded holidays) in its own year; the years are spaced by multiples of 16..512, 100, 400, 19 or 28 so that they collide in a direct-mapped or modulo-indexed memo shared between threads; every answer must equal that of a fresh thread alone on a fresh value; non-trivial = at least two different years",
                f: hammer,
                text_f: None,
                cases_quick: 192,
                cases_thorough: 4_000,
                max_choices: 120,
            },
            SubCheck {
                name: "lookup_histories",
                rule: "histories of 6-13 coordinate lookups (time zone, country, evaluation of `sunrise-sunset; PH off` under Context::from_coords) over a pool of 3-6 places: both sides, a few metres apart, of one or two zone / country borders (260 + 200 border places found by bisecting the library's own lookups on a 1-degree grid) and one or two cities elsewhere: every (place, lookup) must answer the same whatever was looked up before; a quarter of the cases take a place of no supported country with two or more countries within a kilometre (90 junctions found by quadtree descent) and ask its country 25 times, then from 2-4 threads; non-trivial = at least two lookups were repeated after a different predecessor / a junction of two or more countries",
                f: lookup_histories,
                text_f: None,
                cases_quick: 4_000,
                cases_thorough: 60_000,
                max_choices: 60,
            },
            SubCheck {
                name: "gap_histories",
                rule: "3-7 queries (next_change, 12 intervals) on one thread over zones of one family (Europe, Australia, North America: 27 zones) that skip time on the same local date of a drawn year 2008-2030, each with a span bound on a wall-clock minute inside the skipped stretch of one of them, asked from the day before: every answer must equal the answer of the same query alone on a fresh thread with a freshly built value; non-trivial = at least two different zones",
                f: gap_histories,
                text_f: None,
                cases_quick: 1_200,
                cases_thorough: 30_000,
                max_choices: 60,
            },
            SubCheck {
                name: "first_use_text",
                rule: "",
                f: |_, _| Ok(()),
                text_f: Some(first_use_text),
                cases_quick: 0,
                cases_thorough: 0,
                max_choices: 1,
            },
        ],
        extra: Some(extra),
        assumptions: vec![
            "interleavings are sampled (barriers, many fresh processes): the harness does not own the OS scheduler, so a race needing one specific preemption point can be missed; first-use ORDERS are enumerated (all 720 in the thorough tier)",
            "queries needing more than 20 000 day schedules answer TOO_FAR deterministically on every thread",
        ],
    }
}
