//! C05 — the parser accepts the supported grammar and builds the denoted expression.
//!
//! Positive: the sentence generator produces text *and* the syntax tree it denotes (built
//! without the parser); `parse(text)` must equal that tree. Negative: sentence templates with one
//! numeric field; in-range values must parse, out-of-range values (and the other rejected forms
//! of the property) must give an error.

use opening_hours_syntax::rules::OpeningHoursExpression;

use crate::choice::Choices;
use crate::engine::Property;
use crate::gen::expr::{gen_expr, Cfg};
use crate::gen::labels::label_expr;
use crate::runner::{guard, Case, SubCheck};

pub fn parse_guarded(text: &str) -> Result<Result<OpeningHoursExpression, String>, String> {
    guard(|| opening_hours_syntax::parse(text).map_err(|e| e.to_string().replace('\n', " | ")))
}

fn first_difference(exp: &OpeningHoursExpression, got: &OpeningHoursExpression) -> String {
    if exp.rules.len() != got.rules.len() {
        return format!("{} rules expected, {} parsed: {:?}", exp.rules.len(), got.rules.len(), got.rules);
    }
    for (i, (a, b)) in exp.rules.iter().zip(&got.rules).enumerate() {
        if a != b {
            if a.day_selector != b.day_selector {
                return format!("rule #{i} day selector: denoted {:?}, parsed {:?}", a.day_selector, b.day_selector);
            }
            if a.time_selector != b.time_selector {
                return format!("rule #{i} time selector: denoted {:?}, parsed {:?}", a.time_selector, b.time_selector);
            }
            return format!(
                "rule #{i}: denoted kind={:?} op={:?} comments={:?}, parsed kind={:?} op={:?} comments={:?}",
                a.kind, a.operator, a.comments, b.kind, b.operator, b.comments
            );
        }
    }
    "no difference?".into()
}

fn positive(ch: &mut Choices, case: &mut Case) -> Result<(), String> {
    let cfg = Cfg { max_rules: 4, long_pct: 3, repeat_pct: 4, ..Cfg::default() };
    let (ast, text) = gen_expr(ch, &cfg);
    case.key = text.clone();
    let kinds = label_expr(&ast, case);
    case.nontrivial = kinds >= 2 || ast.rules.len() >= 2;
    match parse_guarded(&text) {
        Err(p) => Err(format!("parse panicked: {p}")),
        Ok(Err(e)) => Err(format!("sentence of the supported grammar rejected: {e}")),
        Ok(Ok(got)) => {
            // comments: sorted and deduplicated, judged with the harness' own set (the denoted
            // tree stores them in the library's container)
            for (i, (d, g)) in ast.rules.iter().zip(&got.rules).enumerate() {
                let expected: Vec<String> = d.comments.iter().map(|c| c.to_string()).collect::<std::collections::BTreeSet<_>>().into_iter().collect();
                let parsed: Vec<String> = g.comments.iter().map(|c| c.to_string()).collect();
                if parsed != expected {
                    return Err(format!("rule #{i}: parsed comments {parsed:?}, the sentence carries {expected:?} (sorted, each once)"));
                }
            }
            if got == ast {
                Ok(())
            } else {
                Err(format!("parsed expression differs from the denoted one: {}", first_difference(&ast, &got)))
            }
        }
    }
}

fn positive_text(text: &str, case: &mut Case) -> Result<(), String> {
    case.key = text.to_string();
    match parse_guarded(text) {
        Err(p) => Err(format!("parse panicked: {p}")),
        Ok(Err(e)) => Err(format!("sentence of the supported grammar rejected: {e}")),
        Ok(Ok(_)) => Ok(()),
    }
}

// ---- negative: templates with one numeric field ---------------------------------------------

#[derive(Clone, Copy)]
enum Field {
    /// start hour: 0..=23 (one or two digits)
    StartHour,
    /// minute: 00..=59, always two digits
    Minute,
    /// extended hour: 0..=48 with minute 00
    ExtHour,
    /// minutes after hour 48: only 00
    MinuteAt48,
    /// day of month 1..=31
    Day,
    /// week number 1..=53
    Week,
    /// nth 1..=5
    Nth,
    /// year 1900..=9999
    YearField,
    /// step of a week range 1..=255
    WeekStep,
    /// step of a year range 1..=65535
    YearStep,
    /// day offset: 1..
    DayOffset,
}

const TEMPLATES: &[(&str, Field)] = &[
    ("{}:00-23:30", Field::StartHour),
    ("Mo {}:15-23:30", Field::StartHour),
    ("Mo-Fr 08:00-09:00,{}:00-23:45 open", Field::StartHour),
    ("(sunrise+{}:30)-20:00", Field::StartHour),
    ("(dusk-{}:00)-23:00", Field::StartHour),
    ("10:{}-12:00", Field::Minute),
    ("10:00-12:{}", Field::Minute),
    ("Sa 1:{}-2:00; Su off", Field::Minute),
    ("10:00-30:{}", Field::Minute),
    ("10:00-{}:00", Field::ExtHour),
    ("Mo 22:00-{}:00", Field::ExtHour),
    ("10:00-48:{}", Field::MinuteAt48),
    ("Jan {}", Field::Day),
    ("Jan{}", Field::Day),
    ("Jan 5-{}", Field::Day),
    ("2020 Dec {} off", Field::Day),
    ("Mar 1-Oct {} 10:00-12:00", Field::Day),
    ("Oct {}+", Field::Day),
    ("week {}", Field::Week),
    ("week {} Mo", Field::Week),
    ("week 1-{}", Field::Week),
    ("week {}-53/2", Field::Week),
    ("Mo[{}]", Field::Nth),
    ("Mo[-{}]", Field::Nth),
    ("Fr[1-{}] 10:00-12:00", Field::Nth),
    ("Fr[1,{}]", Field::Nth),
    ("{} Mo", Field::YearField),
    ("{}", Field::YearField),
    ("{}-9999 off", Field::YearField),
    ("2000-{}", Field::YearField),
    ("{} Jan 5", Field::YearField),
    ("{}Jan", Field::YearField),
    ("{}+", Field::YearField),
    ("Jan 5-{} Feb 3", Field::YearField),
    ("week 1-53/{}", Field::WeekStep),
    ("week 10-20/{} Mo", Field::WeekStep),
    ("2020-2030/{}", Field::YearStep),
    ("1900-9999/{} off", Field::YearStep),
    ("Mo[1] +{} day", Field::DayOffset),
    ("PH -{} days", Field::DayOffset),
    ("Jan 1 +{} days", Field::DayOffset),
    // the same fields further down a list, in the second end of a range, after another selector
    ("08:00-09:00,10:00-11:00,{}:00-23:00", Field::StartHour),
    ("Mo 08:00-09:00; Tu {}:30-23:45", Field::StartHour),
    ("10:00-11:00,12:{}-13:00", Field::Minute),
    ("10:00-11:00,12:00-13:{} unknown", Field::Minute),
    ("(sunrise+01:{})-20:00", Field::Minute),
    ("10:00-12:00/00:{}", Field::Minute),
    ("08:00-09:00,10:00-{}:00", Field::ExtHour),
    ("Mo,We 20:00-{}:00 open \"x\"", Field::ExtHour),
    ("Mo 08:00-09:00,10:00-48:{}", Field::MinuteAt48),
    ("Jan 1,Feb {}", Field::Day),
    ("Jan 1-3,Feb 5-{}", Field::Day),
    ("2020 Jan 1-2021 Feb {}", Field::Day),
    ("Mar {} +2 days", Field::Day),
    ("Jan 1-Mar {}+Su", Field::Day),
    ("week 1,{}", Field::Week),
    ("week 1-2,5-{}", Field::Week),
    ("week 1-2,{}-53/2 Mo", Field::Week),
    ("Jan week {} Mo 10:00-12:00", Field::Week),
    ("Mo[1],Tu[{}]", Field::Nth),
    ("Mo[1-2,{}]", Field::Nth),
    ("Mo[1,2-{}] +1 day", Field::Nth),
    ("Mo[1,-{}]", Field::Nth),
    ("Mo[{}-5]", Field::Nth),
    ("2020,{}", Field::YearField),
    ("2020-2021,{}-9999", Field::YearField),
    ("2020-2021,2030-{}/2 Mo", Field::YearField),
    ("2020 Jan 5-{} Feb 3", Field::YearField),
    ("Jan 5,{} Feb 3", Field::YearField),
    ("{} easter", Field::YearField),
    ("{}Jan-Mar", Field::YearField),
    ("week 1-53/2,2-52/{}", Field::WeekStep),
    ("2020-2030/2,2040-2050/{}", Field::YearStep),
    ("PH +{} day,SH", Field::DayOffset),
    ("easter -{} days", Field::DayOffset),
    ("Dec 25-easter +{} days", Field::DayOffset),
    ("Jan 1-Feb 1 +{} day", Field::DayOffset),
];

/// (text of the value, must it be accepted?)
fn field_value(ch: &mut Choices, f: Field) -> (String, bool) {
    let invalid = ch.chance(55);
    match f {
        Field::StartHour => {
            if invalid {
                let h = ch.pick(&[25u32, 24, 26, 29, 30, 48, 99, 240, 100]);
                // "24" is only valid as the literal 24:00, the templates use other minutes or
                // a start position where 24:00-23:30 would still be fine, so keep 24 out when
                // the template has ":00"
                (h.to_string(), false)
            } else {
                let h = ch.pick(&[0u32, 9, 10, 19, 20, 23, 5, 1]);
                if h < 10 && ch.chance(50) {
                    (h.to_string(), true)
                } else {
                    (format!("{h:02}"), true)
                }
            }
        }
        Field::Minute => {
            if invalid {
                (ch.pick(&["60", "61", "69", "70", "99", "75"]).to_string(), false)
            } else {
                (ch.pick(&["00", "01", "09", "10", "30", "59", "50"]).to_string(), true)
            }
        }
        Field::ExtHour => {
            if invalid {
                (ch.pick(&["49", "50", "59", "99", "72", "480"]).to_string(), false)
            } else {
                (ch.pick(&["00", "24", "25", "39", "40", "47", "48", "9", "0"]).to_string(), true)
            }
        }
        Field::MinuteAt48 => {
            if invalid {
                (ch.pick(&["01", "30", "59", "10"]).to_string(), false)
            } else {
                ("00".to_string(), true)
            }
        }
        Field::Day => {
            if invalid {
                (ch.pick(&["0", "00", "32", "33", "39", "40", "99", "100", "310"]).to_string(), false)
            } else {
                (ch.pick(&["1", "01", "9", "09", "10", "28", "29", "30", "31"]).to_string(), true)
            }
        }
        Field::Week => {
            if invalid {
                (ch.pick(&["0", "00", "54", "55", "60", "99", "100", "530"]).to_string(), false)
            } else {
                (ch.pick(&["1", "01", "9", "10", "49", "50", "52", "53"]).to_string(), true)
            }
        }
        Field::Nth => {
            if invalid {
                (ch.pick(&["0", "6", "7", "9", "10", "55"]).to_string(), false)
            } else {
                (ch.pick(&["1", "2", "3", "4", "5"]).to_string(), true)
            }
        }
        Field::YearField => {
            if invalid {
                (ch.pick(&["1899", "10000", "1000", "999", "0", "0000", "1800", "99999", "19999"]).to_string(), false)
            } else {
                (ch.pick(&["1900", "1901", "1999", "2000", "2024", "9998", "9999"]).to_string(), true)
            }
        }
        Field::WeekStep => {
            if invalid {
                (ch.pick(&["0", "00", "256", "1000", "99999999999999999999999"]).to_string(), false)
            } else {
                (ch.pick(&["1", "2", "53", "255", "02"]).to_string(), true)
            }
        }
        Field::YearStep => {
            if invalid {
                (ch.pick(&["0", "00", "65536", "100000", "99999999999999999999999"]).to_string(), false)
            } else {
                (ch.pick(&["1", "2", "100", "65535", "010"]).to_string(), true)
            }
        }
        Field::DayOffset => {
            if invalid {
                (ch.pick(&["0", "00", "9223372036854775808", "99999999999999999999999"]).to_string(), false)
            } else {
                (ch.pick(&["1", "2", "10", "365", "01"]).to_string(), true)
            }
        }
    }
}

const REJECTED: &[&str] = &[
    "", "Mo \"abc", "Mo abc\"", "\"abc", "abc\"", "Mo \"a\" \"", "Mo \"a", "10:00-12:00 \"", "Mo 10:00-12:00 open \"x",
    "\"a\": Mo \"", "Mo[0]", "Mo[6]", "week 0", "week 54", "Jan 0", "Jan 32", "1899", "10000", "25:00-26:00", "10:60-12:00",
    "10:00-48:01", "10:00-49:00", "week 1-10/0", "2020-2030/0",
];

const UNSUPPORTED: &[&str] = &[
    "10:00", "Mo 10:00", "Mo 10:00,12:00", "sunrise", "Mo sunset", "easter-5", "easter -1 day-10", "2020 easter-3",
    "Mo-Fr 08:00,10:00-12:00",
];

fn negative(ch: &mut Choices, case: &mut Case) -> Result<(), String> {
    match ch.weighted(&[80, 12, 8]) {
        0 => {
            let (template, field) = ch.pick(TEMPLATES);
            let (value, mut accept) = field_value(ch, field);
            // hour 24 is valid exactly in "24:00"
            if value == "24" && matches!(field, Field::StartHour) {
                if !template.contains("{}:00") {
                    // "24:15" as a start: neither promised nor listed as rejected
                    case.exclude("not-asserted:24:mm-start");
                    case.key = template.replace("{}", &value);
                    return Ok(());
                }
                accept = true;
            }
            let mut text = template.replace("{}", &value);
            // half of the out-of-range values sit in the middle of a generated expression: the sentence is
            // wrapped between generated rules, and must be rejected whenever its twin carrying an in-range
            // value of the same field is accepted
            if !accept && ch.chance(50) {
                let cfg = Cfg { max_rules: 2, ..Cfg::default() };
                let pre = if ch.chance(70) { format!("{}; ", gen_expr(ch, &cfg).1.trim()) } else { String::new() };
                let post = if ch.chance(70) { format!("; {}", gen_expr(ch, &cfg).1.trim()) } else { String::new() };
                let twin_value = (0..40).find_map(|_| {
                    let (v, ok) = field_value(ch, field);
                    (ok && v != "24").then_some(v)
                });
                let Some(twin_value) = twin_value else {
                    case.exclude("not-asserted:no-valid-twin-drawn");
                    return Ok(());
                };
                let twin = format!("{pre}{}{post}", template.replace("{}", &twin_value));
                if !matches!(parse_guarded(&twin), Ok(Ok(_))) {
                    case.exclude("not-asserted:context-rejects-the-valid-twin");
                    case.key = twin;
                    return Ok(());
                }
                text = format!("{pre}{text}{post}");
                case.label("out_of_range_value_inside_a_generated_expression");
            }
            case.key = format!("{text}  [{}]", if accept { "must parse" } else { "must be rejected" });
            case.nontrivial = !accept;
            case.label(if accept { "template_valid_value" } else { "template_invalid_value" });
            match parse_guarded(&text) {
                Err(p) => Err(format!("parse panicked: {p}")),
                Ok(Ok(parsed)) if !accept => Err(format!("out-of-range field accepted; parsed as {parsed:?}")),
                Ok(Err(e)) if accept => Err(format!("in-range field rejected: {e}")),
                _ => Ok(()),
            }
        }
        1 => {
            let text = ch.pick(REJECTED);
            case.key = format!("{text:?}  [must be rejected]");
            case.nontrivial = true;
            case.label("rejected_form");
            match parse_guarded(text) {
                Err(p) => Err(format!("parse panicked: {p}")),
                Ok(Ok(parsed)) => Err(format!("accepted; parsed as {parsed:?}")),
                Ok(Err(_)) => Ok(()),
            }
        }
        _ => {
            let text = ch.pick(UNSUPPORTED);
            case.key = format!("{text:?}  [unsupported construct, must be rejected]");
            case.nontrivial = true;
            case.label("unsupported_construct");
            match parse_guarded(text) {
                Err(p) => Err(format!("parse panicked: {p}")),
                Ok(Ok(parsed)) => Err(format!("unsupported construct accepted; parsed as {parsed:?}")),
                Ok(Err(_)) => Ok(()),
            }
        }
    }
}

pub fn property() -> Property {
    Property {
        id: "C05",
        subs: vec![
            SubCheck {
                name: "positive",
                rule: "sentences of 1-4 rules from the grammar-directed generator (all selector kinds, every syntactic variant of appendix B drawn per construct) together with the syntax tree they denote, built without the parser; parse(text) must equal the tree (selectors, ranges, steps, offsets, nth, spans, open end, repeats, kind, operator, comment set); non-trivial = at least two selector kinds or two rules",
                f: positive,
                text_f: Some(positive_text),
                cases_quick: 200_000,
                cases_thorough: 3_000_000,
                max_choices: 260,
            },
            SubCheck {
                name: "negative",
                rule: "77 sentence templates with one numeric field (start hour, minute, extended hour, 48:mm, day, week, nth, year, steps, day offset; the field at the head of a sentence, further down a list, in the second end of a range, after other selectors) filled with boundary values: in-range values must parse, out-of-range values must be rejected; half of the out-of-range sentences are wrapped between generated rules and must be rejected whenever the twin carrying an in-range value is accepted; plus the fixed lists of rejected forms (empty input, unbalanced/empty quotes, ...) and unsupported constructs (points in time, Easter followed by a bare day number); non-trivial = a case that must be rejected",
                f: negative,
                text_f: None,
                cases_quick: 40_000,
                cases_thorough: 100_000,
                max_choices: 320,
            },
        ],
        extra: None,
        assumptions: vec![
            "the generator's denotation of each construct is the specification of the parser (written from the OSM grammar, the grammar file's comments and the parser tests)",
            "forms neither documented nor rejected by the property's list are not asserted either way",
        ],
    }
}
