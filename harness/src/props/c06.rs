//! C06 — printed expressions parse back to an equivalent expression.
//!
//! Metamorphic relation: `parse(e.to_string())` succeeds and evaluates like `e` (kinds and comment
//! fragments on every probed day), for generated expressions and for their normal forms.

use opening_hours::{Context, OpeningHours};

use crate::choice::Choices;
use crate::engine::Property;
use crate::gen::dates::DateGen;
use crate::gen::expr::Cfg;
use crate::gen::labels::label_expr;
use crate::props::common::{day_norm, fmt_norm, gen_case, GenCase};
use crate::runner::{guard, Case, SubCheck};

/// The relation for one expression value; returns (printed text, structural equality).
pub fn roundtrip_relation(
    ch: &mut Choices,
    g: &GenCase,
    oh: &OpeningHours,
    // the syntax tree of `oh`
    tree: &opening_hours_syntax::rules::OpeningHoursExpression,
    what: &str,
    n_dates: u32,
    units: &mut u64,
) -> Result<(String, bool), String> {
    let printed = guard(|| oh.to_string()).map_err(|p| format!("{what}: to_string panicked: {p}"))?;
    let reparsed = match guard(|| OpeningHours::parse(&printed)) {
        Err(p) => return Err(format!("{what} prints as `{printed}`, whose parsing panics: {p}")),
        Ok(Err(e)) => {
            return Err(format!(
                "{what} prints as `{printed}`, which does not parse: {}",
                e.to_string().replace('\n', " | ")
            ))
        }
        Ok(Ok(x)) => x.with_context(Context::default().with_holidays(g.holidays.holidays.clone())),
    };
    let reparsed_ast = guard(|| opening_hours_syntax::parse(&printed).ok()).unwrap_or(None);
    let structural = reparsed_ast.as_ref() == Some(tree);
    let dates = DateGen::new(&g.ast, g.base_year, &g.holidays.model);
    // The reparsed tree differs from the original one (the printer chose another spelling):
    // equivalence is then a semantic claim, checked on every day of the years the expression
    // mentions and their neighbours, not only on the probe dates.
    if !structural && reparsed_ast.is_some() {
        let mut years: Vec<i32> = crate::gen::dates::mentioned_years(&g.ast);
        years.truncate(3);
        years.push(g.base_year);
        let mut all: Vec<i32> = years.iter().flat_map(|y| [y - 1, *y, y + 1]).filter(|y| (1900..=9999).contains(y)).collect();
        all.sort();
        all.dedup();
        for y in all {
            let mut d = chrono::NaiveDate::from_ymd_opt(y, 1, 1).unwrap();
            while chrono::Datelike::year(&d) == y {
                *units += 1;
                let a = day_norm(oh, d).map_err(|p| format!("{what}: schedule_at({d}) panicked: {p}"))?;
                let b = day_norm(&reparsed, d).map_err(|p| format!("reparsed `{printed}`: schedule_at({d}) panicked: {p}"))?;
                if a != b {
                    return Err(format!(
                        "{what} prints as `{printed}`, which parses to another tree and evaluates differently on {d}: original [{}] reparsed [{}]",
                        fmt_norm(&a),
                        fmt_norm(&b)
                    ));
                }
                d = d.succ_opt().unwrap();
            }
        }
    }
    for _ in 0..n_dates {
        let d = dates.draw(ch, true);
        *units += 1;
        let a = day_norm(oh, d).map_err(|p| format!("{what}: schedule_at({d}) panicked: {p}"))?;
        let b = day_norm(&reparsed, d).map_err(|p| format!("reparsed `{printed}`: schedule_at({d}) panicked: {p}"))?;
        if a != b {
            return Err(format!(
                "{what} prints as `{printed}`, which evaluates differently on {d}: original [{}] reparsed [{}]",
                fmt_norm(&a),
                fmt_norm(&b)
            ));
        }
    }
    Ok((printed, structural))
}

fn roundtrip(ch: &mut Choices, case: &mut Case) -> Result<(), String> {
    let base_year = if ch.chance(85) { 2020 } else { ch.pick(&[1900, 9992, 2096]) };
    let cfg = Cfg { max_rules: 4, base_year, dense: ch.chance(35), max_day_offset: 400, long_pct: 2, repeat_pct: 4, ..Cfg::default() };
    let g = gen_case(ch, &cfg)?;
    case.key = g.text.clone();
    label_expr(&g.ast, case);
    let mut units = 0;
    let (printed, _) = roundtrip_relation(ch, &g, &g.oh, &g.ast, &format!("`{}`", g.text), 10, &mut units)?;
    // the expression-level Display is the same text
    let expr_printed = guard(|| g.ast.to_string()).map_err(|p| format!("expression to_string panicked: {p}"))?;
    if expr_printed != printed {
        return Err(format!("OpeningHours prints `{printed}` but its expression prints `{expr_printed}`"));
    }
    // normal form
    let norm = guard(|| g.oh.normalize()).map_err(|p| format!("`{}`: normalize panicked: {p}", g.text))?;
    let norm_tree = g.ast.clone().normalize();
    let (nprinted, _) = roundtrip_relation(ch, &g, &norm, &norm_tree, &format!("the normal form of `{}`", g.text), 6, &mut units)?;
    case.units = units;
    case.nontrivial = printed != g.text || g.ast.rules.len() >= 2;
    if nprinted != printed {
        case.label("normal_form_prints_differently");
    }
    if printed != g.text {
        case.label("printed_differs_from_input");
    }
    Ok(())
}

/// Whatever the parser accepts must print to something it accepts again with the same meaning —
/// also sentences outside the generator's grammar: valid sentences with one or two token-level
/// mutations (a space inserted, a token duplicated, a digit changed ...) that still parse.
fn accepted_mutants(ch: &mut Choices, case: &mut Case) -> Result<(), String> {
    let base_year = 2020;
    let relaxed = ch.chance(30);
    let cfg = Cfg { max_rules: 3, base_year, dense: ch.chance(35), max_day_offset: 40, relaxed, ..Cfg::default() };
    let (_, original) = crate::gen::expr::gen_expr(ch, &cfg);
    // a sentence of the relaxed grammar is a candidate as it stands
    let text = if relaxed && ch.chance(60) { original.clone() } else { crate::props::c04::mutate(&original, ch) };
    if relaxed {
        case.label("relaxed_grammar_sentence");
    }
    case.key = text.clone();
    let holidays = crate::gen::ctx::gen_holidays(ch, base_year);
    let Ok(Ok(ast)) = guard(|| opening_hours_syntax::parse(&text)) else {
        case.label("mutant_rejected");
        return Ok(());
    };
    let Ok(oh) = OpeningHours::parse(&text) else {
        return Err(format!("`{text}`: accepted by opening_hours_syntax::parse, rejected by OpeningHours::parse"));
    };
    // huge offsets make evaluation walk far; they are C04's business
    if text.len() > 400 || ast.rules.iter().any(|r| r.day_selector.monthday.iter().any(|m| matches!(m, opening_hours_syntax::rules::day::MonthdayRange::Date { start, end } if start.1.day_offset.abs() > 4000 || end.1.day_offset.abs() > 4000))) {
        case.exclude("mutant-with-huge-offset");
        return Ok(());
    }
    let oh = oh.with_context(Context::default().with_holidays(holidays.holidays.clone()));
    label_expr(&ast, case);
    let g = GenCase { text: text.clone(), denoted: ast.clone(), ast, oh, holidays, base_year };
    let mut units = 0;
    roundtrip_relation(ch, &g, &g.oh, &g.ast, &format!("`{text}`"), 6, &mut units)?;
    let norm = guard(|| g.oh.normalize()).map_err(|p| format!("`{text}`: normalize panicked: {p}"))?;
    let norm_tree = g.ast.clone().normalize();
    roundtrip_relation(ch, &g, &norm, &norm_tree, &format!("the normal form of `{text}`"), 4, &mut units)?;
    case.units = units;
    case.nontrivial = text != original || relaxed;
    Ok(())
}

fn roundtrip_text(text: &str, case: &mut Case) -> Result<(), String> {
    case.key = text.to_string();
    let ast = opening_hours_syntax::parse(text).map_err(|e| e.to_string())?;
    let oh = OpeningHours::parse(text).map_err(|e| e.to_string())?;
    let g = GenCase { text: text.to_string(), denoted: ast.clone(), ast, oh, holidays: Default::default(), base_year: 2020 };
    let choices: Vec<u16> = (0..400u32).map(|i| (i.wrapping_mul(40503) >> 3) as u16).collect();
    let mut ch = Choices::new(&choices);
    let mut units = 0;
    roundtrip_relation(&mut ch, &g, &g.oh, &g.ast, &format!("`{text}`"), 60, &mut units)?;
    let norm = g.oh.normalize();
    let norm_tree = g.ast.clone().normalize();
    roundtrip_relation(&mut ch, &g, &norm, &norm_tree, &format!("the normal form of `{text}`"), 60, &mut units)?;
    Ok(())
}

pub fn property() -> Property {
    Property {
        id: "C06",
        subs: vec![
            SubCheck {
                name: "accepted_mutants",
                rule: "a generated sentence with one or two token-level mutations (character deleted, grammar token inserted, slice duplicated, slice replaced, digit changed, space inserted at a character-class boundary), or (30 %) a sentence of a relaxed grammar (space between year and month/date selectors, ambiguous gluings not avoided); when the parser still accepts it — whatever the generator's grammar says — the same print / reparse / evaluate relation must hold for it and for its normal form; non-trivial = the mutant differs from the sentence and is accepted",
                f: accepted_mutants,
                text_f: Some(roundtrip_text),
                cases_quick: 60_000,
                cases_thorough: 1_500_000,
                max_choices: 420,
            },SubCheck {
            name: "roundtrip",
            rule: "generated expression e (1-4 rules, full grammar incl. repeats, events with offsets, steps, nth, dated ranges, comments) and its normal form n: to_string() must parse, and the reparsed expression must give the same merged (kind, comment-fragment set) ranges as the original on 10 (resp. 6) expression-aware dates under generated PH/SH calendars; OpeningHours and expression Display agree; non-trivial = printed text differs from the input or the expression has >= 2 rules",
            f: roundtrip,
            text_f: Some(roundtrip_text),
            cases_quick: 120_000,
            cases_thorough: 1_500_000,
            max_choices: 380,
        }],
        extra: None,
        assumptions: vec![
            "comments of a range are compared as the set of \", \"-separated fragments (the statement allows several comments of one rule to come back joined)",
            "the Python str/repr forms are checked by the C12 driver",
        ],
    }
}
