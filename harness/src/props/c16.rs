//! C16 — the interval-size bound is a sound approximation.

use chrono::{Duration, NaiveDateTime};
use opening_hours::{Context, OpeningHours};

use crate::choice::Choices;
use crate::engine::Property;
use crate::gen::dates::DateGen;
use crate::gen::expr::Cfg;
use crate::gen::labels::label_expr;
use crate::props::c02::gen_time;
use crate::props::common::{first_change_after, gen_case, Scan};
use crate::runner::{guard, Case, SubCheck};

fn fmt_dur(d: Duration) -> String {
    format!("{}d{:02}h{:02}m", d.num_days(), d.num_hours() % 24, d.num_minutes() % 60)
}

pub fn check_bound(
    oh: &OpeningHours,
    holidays: &opening_hours::ContextHolidays,
    text: &str,
    t: NaiveDateTime,
    bound: Duration,
    order: u32,
) -> Result<(bool, &'static str), String> {
    // the bound is "in the context" whatever the order in which the context was assembled
    use opening_hours::localization::NoLocation;
    let ctx = match order {
        0 => Context::default().with_holidays(holidays.clone()).approx_bound_interval_size(bound),
        1 => Context::default().approx_bound_interval_size(bound).with_holidays(holidays.clone()),
        2 => Context::default().approx_bound_interval_size(bound).with_locale(NoLocation).with_holidays(holidays.clone()),
        3 => Context::default().with_holidays(holidays.clone()).approx_bound_interval_size(bound).with_locale(NoLocation),
        _ => Context::default().with_holidays(holidays.clone()).approx_bound_interval_size(bound),
    };
    let text = &format!(
        "{text} [context assembled in order {order}: {}]",
        ["holidays, bound", "bound, holidays", "bound, locale, holidays", "holidays, bound, locale", "holidays, bound, then normalize() of the value", "holidays, bound, then clone() of the value"][order.min(5) as usize]
    );
    // values derived from a value that carries the bound still carry it (S-C16-k: normalize() rebuilds the context)
    let normalized;
    let (oh, bounded) = match order {
        4 => {
            normalized = guard(|| oh.normalize()).map_err(|p| format!("`{text}`: normalize panicked: {p}"))?;
            let b = guard(|| oh.clone().with_context(ctx).normalize()).map_err(|p| format!("`{text}`: normalize panicked: {p}"))?;
            (&normalized, b)
        }
        5 => {
            let first = oh.clone().with_context(ctx);
            (oh, first.clone())
        }
        _ => (oh, oh.clone().with_context(ctx)),
    };
    // state is unchanged
    let s0 = guard(|| oh.state(t)).map_err(|p| format!("`{text}`: state({t}) panicked: {p}"))?;
    let s1 = guard(|| bounded.state(t)).map_err(|p| format!("`{text}` with bound {}: state({t}) panicked: {p}", fmt_dur(bound)))?;
    if s0 != s1 {
        return Err(format!("`{text}`: state({t}) is {s0:?} but {s1:?} with an interval-size bound of {}", fmt_dur(bound)));
    }
    // exact answer from a forward scan of the daily schedules reaching beyond t + B
    let horizon_days = (bound.num_days() + 4) as u32;
    let exact = first_change_after(oh, t, horizon_days).map_err(|p| format!("`{text}`: schedule_at panicked: {p}"))?;
    let got = guard(|| bounded.next_change(t)).map_err(|p| format!("`{text}` with bound {}: next_change({t}) panicked: {p}", fmt_dur(bound)))?;
    let day = Duration::days(1);
    match exact {
        Scan::Change(e) => {
            let dist = e - t;
            if let Some(x) = got {
                if x != e {
                    return Err(format!("`{text}` with bound {}: next_change({t}) = {x} but the exact next change is {e}", fmt_dur(bound)));
                }
            }
            if got.is_none() && dist <= bound - day {
                return Err(format!("`{text}` with bound {}: next_change({t}) = None although the exact next change {e} lies only {} after t (<= B - 24h)", fmt_dur(bound), fmt_dur(dist)));
            }
            if got.is_some() && dist > bound {
                return Err(format!("`{text}` with bound {}: next_change({t}) = {got:?} although the exact next change lies {} after t (> B)", fmt_dur(bound), fmt_dur(dist)));
            }
            let near = (dist - bound).abs() <= day * 2 || (dist - (bound - day)).abs() <= day * 2;
            Ok((near, if got.is_some() { "exact_reported" } else { "cut_to_none" }))
        }
        Scan::Never | Scan::Horizon => {
            // no change within B + 4 days (or ever): the bounded answer must be none
            if let Some(x) = got {
                return Err(format!("`{text}` with bound {}: next_change({t}) = {x} but the daily schedules show no change within {} days", fmt_dur(bound), horizon_days));
            }
            Ok((false, "no_change_within_bound"))
        }
    }
}

fn bound_relation(ch: &mut Choices, case: &mut Case) -> Result<(), String> {
    let base_year = if ch.chance(85) { 2020 } else { ch.pick(&[1900, 9990]) };
    let cfg = Cfg { max_rules: 3, base_year, dense: ch.chance(40), max_day_offset: 40, jumpable_pct: 15, ..Cfg::default() };
    let g = gen_case(ch, &cfg)?;
    label_expr(&g.ast, case);
    let dates = DateGen::new(&g.ast, g.base_year, &g.holidays.model);
    let mut nontrivial = false;
    for _ in 0..3 {
        let t = dates.draw(ch, false).and_time(gen_time(ch));
        // place B next to the distance of the exact next change when there is one within 3 years
        let exact = first_change_after(&g.oh, t, 1100).map_err(|p| format!("`{}`: schedule_at panicked: {p}", g.text))?;
        let day = Duration::days(1);
        let minute = Duration::minutes(1);
        // whole-day distances from the *date* of t to a later midnight (the day of the exact change, the next
        // first of a month, the next New Year): the bound then coincides with a jump of the iterator between
        // days, whatever the time of day of t (S-C16-g is wrong only when the two are equal to the second)
        let day_aligned = |ch: &mut Choices, target: chrono::NaiveDate| {
            let jitter = match ch.draw(6) {
                0 | 1 | 2 => Duration::zero(),
                3 => Duration::seconds(1),
                4 => -Duration::seconds(1),
                _ => Duration::days(ch.int(-1, 1)),
            };
            (target - t.date()) + jitter
        };
        let next_month_first = {
            let d = t.date();
            let (y, m) = if chrono::Datelike::month(&d) == 12 { (chrono::Datelike::year(&d) + 1, 1) } else { (chrono::Datelike::year(&d), chrono::Datelike::month(&d) + 1) };
            chrono::NaiveDate::from_ymd_opt(y, m, 1)
        };
        let next_new_year = chrono::NaiveDate::from_ymd_opt(chrono::Datelike::year(&t.date()) + 1, 1, 1);
        let bound = match (exact, ch.weighted(&[50, 30, 20])) {
            (Scan::Change(e), 2) => {
                case.label("bound_aligned_on_whole_days");
                day_aligned(ch, e.date())
            }
            (_, 2) => {
                case.label("bound_aligned_on_whole_days");
                match (ch.chance(50), next_month_first, next_new_year) {
                    (true, Some(d), _) | (false, None, Some(d)) => day_aligned(ch, d),
                    (false, _, Some(d)) => day_aligned(ch, d),
                    _ => day,
                }
            }
            (Scan::Change(e), 0) => {
                let dist = e - t;
                match ch.draw(8) {
                    0 => dist,
                    1 => dist - minute,
                    2 => dist + minute,
                    3 => dist + day,
                    4 => dist + day - minute,
                    5 => dist + day + minute,
                    6 => dist + Duration::minutes(ch.int(-2880, 2880)),
                    _ => dist + day + Duration::minutes(ch.int(-720, 720)),
                }
            }
            _ => {
                // log-uniform between one day and 60 years
                let exp = ch.int(0, 14);
                Duration::minutes(1440 * (1i64 << exp) + ch.int(0, 1440 * (1i64 << exp)))
            }
        };
        let bound = bound.max(day).min(Duration::days(366 * 60));
        case.key = format!("{}  t={t} bound={}", g.text, fmt_dur(bound));
        case.units += 1;
        let order = ch.weighted(&[35, 20, 15, 12, 12, 6]) as u32;
        let (near, label) = check_bound(&g.oh, &g.holidays.holidays, &g.text, t, bound, order)?;
        case.label(label);
        nontrivial |= near;
    }
    case.nontrivial = nontrivial;
    Ok(())
}

/// Replay text: `expression @ instant @ bound in seconds @ order of assembly`, no holidays.
fn bound_text(text: &str, case: &mut Case) -> Result<(), String> {
    case.key = text.to_string();
    let parts: Vec<&str> = text.split(" @ ").collect();
    let [expr, t, secs, order] = parts[..] else { return Err("bad replay text".into()) };
    let oh = OpeningHours::parse(expr).map_err(|e| e.to_string())?;
    let t: NaiveDateTime = t.trim().parse().map_err(|_| "bad instant")?;
    let bound = Duration::seconds(secs.trim().parse().map_err(|_| "bad bound")?);
    check_bound(&oh, &Default::default(), expr, t, bound, order.trim().parse().map_err(|_| "bad order")?).map(|_| ())
}

pub fn property() -> Property {
    Property {
        id: "C16",
        subs: vec![SubCheck {
            name: "bound_relation",
            rule: "generated expression x calendars x 3 (instant, bound B), the context assembled in one of four orders (holidays / bound / locale), or the value derived by normalize() / clone() from a value carrying the bound: B is placed at the distance of the exact next change, +-1 min, +24 h, +24 h +-1 min, or at the whole number of days between the date of the instant and the day of the exact change / the next first of a month / the next New Year (+-1 s, +-1 day), or drawn log-uniformly from 1 day to 60 years; the exact answer comes from a forward scan of the daily schedules reaching 4 days beyond t+B; with the bound: state equal, next_change in {exact, none}, = exact if exact - t <= B - 24 h, = none if exact - t > B or there is no change; non-trivial = exact - t within 2 days of B or of B - 24 h",
            f: bound_relation,
            text_f: Some(bound_text),
            cases_quick: 40_000,
            cases_thorough: 400_000,
            max_choices: 380,
        }],
        extra: None,
        assumptions: vec!["schedule_at (pointwise) is the oracle for the exact next change"],
    }
}
