//! C08 — supported date range: closed outside 1900..9999, results never leave it.

use chrono::{Duration, NaiveDate, NaiveDateTime, NaiveTime};
use opening_hours::OpeningHours;
use opening_hours_syntax::rules::RuleKind;

use crate::choice::Choices;
use crate::engine::Property;
use crate::gen::expr::Cfg;
use crate::gen::labels::label_expr;
use crate::props::c02::{gen_time, gen_window_len, library_stream};
use crate::props::c03::{capped, Capped};
use crate::props::common::{date_end, date_start, first_change_after, gen_case, Scan};
use crate::model;
use crate::runner::{guard, Case, SubCheck};

fn gen_instant(ch: &mut Choices) -> NaiveDateTime {
    let d = |y, m, dd| NaiveDate::from_ymd_opt(y, m, dd).unwrap();
    match ch.weighted(&[30, 30, 15, 15, 10]) {
        // around the lower bound
        0 => date_start() - Duration::days(2) + Duration::seconds(ch.int(0, 4 * 86400)),
        // around the upper bound
        1 => date_end() - Duration::days(2) + Duration::seconds(ch.int(0, 4 * 86400)),
        // exactly on / next to the bounds
        2 => ch.pick(&[
            date_start(),
            date_start() - Duration::seconds(1),
            date_start() - Duration::minutes(1),
            date_start() + Duration::minutes(1),
            date_end(),
            date_end() - Duration::seconds(1),
            date_end() - Duration::minutes(1),
            date_end() - Duration::minutes(2),
            date_end() + Duration::minutes(1),
        ]),
        // far outside
        3 => {
            let y = ch.pick(&[-262000, -100000, -1, 0, 1, 1000, 1899, 10000, 10001, 50000, 262000]);
            d(y, 1 + ch.draw(12), 1 + ch.draw(28)).and_time(gen_time(ch))
        }
        // inside
        _ => d(ch.pick(&[1900, 1901, 1950, 9998, 9999]), 1 + ch.draw(12), 1 + ch.draw(28)).and_time(gen_time(ch)),
    }
}

fn outside(t: NaiveDateTime) -> bool {
    t < date_start() || t >= date_end()
}

fn bounds(ch: &mut Choices, case: &mut Case) -> Result<(), String> {
    // selectors straddling the bounds: years are drawn from 1900.. or ..9999
    let low = ch.chance(50);
    let base_year = if low { 1900 } else { 9992 };
    let cfg = Cfg { max_rules: 3, base_year, wide_years: ch.chance(30), dense: ch.chance(30), max_day_offset: 40, jumpable_pct: 15, ..Cfg::default() };
    let g = if ch.chance(12) {
        // what the last day before the range spills into its first day, and the last day of the
        // range past its end: selectors matching Dec 31 / the last week, spans reaching the next day
        let text = format!(
            "{}{} {}{}",
            ch.pick(&["", "24/7; ", "Jan-Nov unknown, ", "Mo-Su 10:00-12:00; "]),
            ch.pick(&["Dec 31", "Dec 24-31", "Dec 31-Dec 31", "week 52", "Dec Su", "Dec", "Dec 30-Jan 1 -1 day", "Su[-1]", "Dec Fr[-1]"]),
            ch.pick(&["00:00-48:00", "12:00-48:00", "20:00-48:00", "24:00-48:00", "22:00-26:00", "10:00-30:00", "23:59-24:01"]),
            ch.pick(&["", " off", " closed", " unknown", " open \"x\""])
        );
        // ... or a shifted holiday selector looking across the bound: holidays in the last days
        // of 1899 / the first days of 10000
        let (text, holidays) = if ch.chance(35) {
            let n = 1 + ch.draw(7);
            let text = format!(
                "{}PH {}{n} day{} {}",
                ch.pick(&["", "24/7; ", "Mo-Su 10:00-12:00; "]),
                if low { '+' } else { '-' },
                if n > 1 { "s" } else { "" },
                ch.pick(&["", "10:00-12:00", "off", "unknown \"x\"", "00:00-48:00"])
            );
            let mut ph = std::collections::BTreeSet::new();
            let edge = if low { date_start().date() - Duration::days(1 + ch.int(0, 7)) } else { date_end().date() + Duration::days(ch.int(0, 7)) };
            ph.insert(edge);
            for _ in 0..ch.draw(4) {
                ph.insert(if low { date_start().date() + Duration::days(ch.int(-9, 400)) } else { date_end().date() - Duration::days(ch.int(-9, 400)) });
            }
            case.label("shifted_holiday_across_a_bound_of_the_range");
            (text.trim_end().to_string(), crate::gen::ctx::holidays_from_sets(ph, Default::default(), ch.draw(3)))
        } else {
            (text, crate::gen::ctx::gen_holidays(ch, base_year))
        };
        let ast = opening_hours_syntax::parse(&text).map_err(|e| format!("constructed sentence `{text}` rejected: {e}"))?;
        let oh = OpeningHours::parse(&text)
            .map_err(|e| format!("constructed sentence `{text}` rejected: {e}"))?
            .with_context(opening_hours::Context::default().with_holidays(holidays.holidays.clone()));
        case.label("spill_across_a_bound_of_the_range");
        crate::props::common::GenCase { text, denoted: ast.clone(), ast, oh, holidays, base_year }
    } else if ch.chance(25) {
        // rare recurrences and spans up to 48:00 next to the bounds (`Dec 31 00:00-48:00`, `Jan 1-Mo`,
        // shifted holidays): what the day before 1900-01-01 / the day after 9999-12-31 contribute
        let text = crate::gen::expr::gen_rare_expr(ch, if low { 1899 } else { 9996 });
        let holidays = crate::gen::ctx::gen_holidays(ch, base_year);
        let ast = opening_hours_syntax::parse(&text).map_err(|e| format!("constructed sentence `{text}` rejected: {e}"))?;
        let oh = OpeningHours::parse(&text)
            .map_err(|e| format!("constructed sentence `{text}` rejected: {e}"))?
            .with_context(opening_hours::Context::default().with_holidays(holidays.holidays.clone()));
        case.label("rare_recurrence_expression");
        crate::props::common::GenCase { text, denoted: ast.clone(), ast, oh, holidays, base_year }
    } else {
        gen_case(ch, &cfg)?
    };
    label_expr(&g.ast, case);
    let oh: &OpeningHours = &g.oh;
    let text = &g.text;
    let mut nontrivial = false;
    let decided = model::undecided(&g.ast).is_none() && model::undecided_at(&g.ast, 1900).is_none() && model::undecided_at(&g.ast, 1899).is_none();
    for _ in 0..3 {
        let t = gen_instant(ch);
        case.key = format!("{text}  t={t}");
        case.units += 1;
        // closed before 1900 and from 10000 on
        let st = guard(|| oh.state(t)).map_err(|p| format!("`{text}`: state({t}) panicked: {p}"))?;
        if outside(t) {
            case.label("instant_outside_supported_range");
            if st != RuleKind::Closed {
                return Err(format!("`{text}`: state({t}) = {st:?} outside the supported range"));
            }
            let day = guard(|| oh.schedule_at(t.date()).into_iter().collect::<Vec<_>>()).map_err(|p| format!("`{text}`: schedule_at({}) panicked: {p}", t.date()))?;
            if t.date() < date_start().date() || t.date() >= date_end().date() {
                if day.iter().any(|r| r.kind != RuleKind::Closed || !r.comments.is_empty()) {
                    return Err(format!("`{text}`: schedule_at({}) is not plainly closed outside the supported range: {day:?}", t.date()));
                }
            }
        }
        // next_change: never at or beyond 10000-01-01; from before 1900: first non-closed instant
        let cap = Some(60_000);
        match capped(cap, || oh.next_change(t)).map_err(|p| format!("`{text}`: next_change({t}) panicked: {p}"))? {
            Capped::TooFar => case.exclude("too_far:next_change-exceeds-work-cap"),
            Capped::Done(got) => {
                if let Some(x) = got {
                    if x >= date_end() {
                        return Err(format!("`{text}`: next_change({t}) = {x} is at or beyond 10000-01-01"));
                    }
                    if x <= t {
                        return Err(format!("`{text}`: next_change({t}) = {x} is not after t"));
                    }
                    if x < date_start() {
                        return Err(format!("`{text}`: next_change({t}) = {x} lies before 1900-01-01"));
                    }
                }
                if t >= date_end() && got.is_some() {
                    return Err(format!("`{text}`: next_change({t}) = {got:?} from an instant beyond the supported range"));
                }
                if t < date_start() && decided {
                    // independent oracle: the first non-closed minute of the first weeks of 1900
                    // according to the documented semantics (reference model, not schedule_at)
                    let mut first_open = None;
                    'days: for k in 0..46 {
                        let d = date_start().date() + Duration::days(k);
                        let (minutes, _) = model::eval_day(&g.ast, d, &g.holidays.model);
                        for (m, kind) in minutes.iter().enumerate() {
                            if *kind != model::K::C {
                                first_open = Some(d.and_hms_opt(m as u32 / 60, m as u32 % 60, 0).unwrap());
                                break 'days;
                            }
                        }
                    }
                    let horizon = date_start() + Duration::days(46);
                    match first_open {
                        Some(e) if got != Some(e) => {
                            return Err(format!("`{text}`: next_change({t}) = {got:?}, but by the documented semantics the expression is first not closed at {e}"));
                        }
                        None if got.is_some_and(|x| x < horizon) => {
                            return Err(format!("`{text}`: next_change({t}) = {got:?}, but by the documented semantics the expression stays closed until {horizon}"));
                        }
                        Some(_) => case.label("model_first_opening_in_1900"),
                        None => {}
                    }
                }
                if t < date_start() || t >= date_end() - Duration::days(6000) {
                    // exact oracle: scan (from 1900-01-01 when t lies before it)
                    match first_change_after(oh, t, 6_200).map_err(|p| format!("`{text}`: schedule_at panicked: {p}"))? {
                        Scan::Change(e) => {
                            if got != Some(e) {
                                return Err(format!("`{text}`: next_change({t}) = {got:?}, the daily schedules first leave the state of t at {e}"));
                            }
                            nontrivial = true;
                            case.label(if t < date_start() { "exact_first_opening_from_before_1900" } else { "exact_change_near_9999" });
                        }
                        Scan::Never => {
                            if got.is_some() {
                                return Err(format!("`{text}`: next_change({t}) = {got:?} but the state never changes before 10000-01-01"));
                            }
                            if t < date_end() {
                                nontrivial = true;
                                case.label("exact_never_until_10000");
                            }
                        }
                        Scan::Horizon => case.label("beyond_scan_horizon"),
                    }
                }
            }
        }
        // intervals stay inside [from, min(to, 10000-01-01)]
        let to = if ch.chance(8) { NaiveDateTime::MAX } else { t.checked_add_signed(gen_window_len(ch, 3)).unwrap_or(NaiveDateTime::MAX) };
        let stream = match capped(Some(60_000), || library_stream(oh, &opening_hours::localization::NoLocation, t, to, 4000)).map_err(|p| format!("`{text}`: iter_range({t}, {to}) panicked: {p}"))? {
            Capped::TooFar => {
                case.exclude("too_far:iter_range-exceeds-work-cap");
                continue;
            }
            Capped::Done(Err(p)) if p.contains(opening_hours::verif_hooks::LIMIT_MARKER) => {
                case.exclude("too_far:iter_range-exceeds-work-cap");
                continue;
            }
            Capped::Done(s) => s.map_err(|p| format!("`{text}`: iter_range({t}, {to}) panicked: {p}"))?,
        };
        let to_eff = to.min(date_end());
        let mut prev_end = None;
        for (a, b, k) in &stream {
            if *a < t || *b > to_eff || a >= b {
                return Err(format!("`{text}`: iter_range({t}, {to}) reports {a}..{b}, outside [from, min(to, 10000-01-01)] or empty"));
            }
            if prev_end.is_some_and(|p| p != *a) {
                return Err(format!("`{text}`: iter_range({t}, {to}) has a gap before {a}"));
            }
            prev_end = Some(*b);
            // pieces outside the supported range are closed
            if (*b <= date_start() || *a >= date_end()) && *k != RuleKind::Closed {
                return Err(format!("`{text}`: iter_range({t}, {to}) reports {k:?} on {a}..{b}, outside the supported range"));
            }
            if *a < date_start() && *k != RuleKind::Closed {
                return Err(format!("`{text}`: iter_range({t}, {to}) reports {k:?} on {a}..{b}, which starts before 1900-01-01"));
            }
        }
        if t < to_eff {
            if stream.first().map(|x| x.0) != Some(t) {
                return Err(format!("`{text}`: iter_range({t}, {to}) starts at {:?}", stream.first().map(|x| x.0)));
            }
            if stream.len() < 4000 && stream.last().map(|x| x.1) != Some(to_eff) {
                return Err(format!("`{text}`: iter_range({t}, {to}) ends at {:?} instead of {to_eff}", stream.last().map(|x| x.1)));
            }
        } else if !stream.is_empty() {
            return Err(format!("`{text}`: iter_range({t}, {to}) yields intervals although from >= min(to, 10000-01-01)"));
        }
        // with an interval-size bound the stream may be cut short, but every reported interval
        // still lies inside [from, min(to, 10000-01-01)]
        if ch.chance(35) {
            let bound = Duration::days(ch.pick(&[1i64, 7, 30, 366, 3660])) + Duration::minutes(ch.int(0, 1440));
            let bounded = oh.clone().with_context(
                opening_hours::Context::default()
                    .with_holidays(g.holidays.holidays.clone())
                    .approx_bound_interval_size(bound),
            );
            case.label("interval_size_bound_context");
            if let Capped::Done(Ok(stream)) = capped(Some(60_000), || library_stream(&bounded, &opening_hours::localization::NoLocation, t, to, 400)).map_err(|p| format!("`{text}`: iter_range({t}, {to}) with a bound panicked: {p}"))? {
                for (a, b, _) in &stream {
                    if *a < t || *b > to_eff || a > b {
                        return Err(format!("`{text}` with an interval-size bound of {} days: iter_range({t}, {to}) reports {a}..{b}, outside [from, min(to, 10000-01-01)]", bound.num_days()));
                    }
                }
            }
        }
        // iter_from never leaves the range either
        if ch.chance(30) {
            if let Capped::Done(first) = capped(Some(60_000), || oh.iter_from(t).next()).map_err(|p| format!("`{text}`: iter_from({t}) panicked: {p}"))? {
                match first {
                    Some(i) => {
                        if i.range.start != t || i.range.end > date_end() || t >= date_end() {
                            return Err(format!("`{text}`: iter_from({t}) first yields {:?}", i.range));
                        }
                    }
                    None => {
                        if t < date_end() {
                            return Err(format!("`{text}`: iter_from({t}) yields nothing inside the supported range"));
                        }
                    }
                }
            }
        }
    }
    case.nontrivial = nontrivial;
    let _ = NaiveTime::MIN;
    Ok(())
}

/// Zone contexts at the ends of what `DateTime` can represent, and far outside the supported range: the local
/// time of such an instant may not be representable at all, whatever the library substitutes for it must still
/// be "before 1900" / "after 9999". Decided inside the library's own answers: every instant before 1900 lies in
/// the same closed stretch, so next_change and the intervals that follow are the same from all of them.
fn zone_extremes(ch: &mut Choices, case: &mut Case) -> Result<(), String> {
    use chrono::{DateTime, TimeZone, Utc};
    use chrono_tz::Tz;
    use opening_hours::localization::TzLocation;
    const ZONES: &[&str] = &[
        "America/New_York", "Europe/Paris", "Pacific/Kiritimati", "Pacific/Pago_Pago", "UTC", "Asia/Kolkata", "Asia/Kathmandu",
        "America/St_Johns", "Pacific/Apia", "Africa/Monrovia", "Etc/GMT+12", "Etc/GMT-14", "Australia/Lord_Howe", "Europe/London",
        "Asia/Tokyo", "America/Los_Angeles", "Asia/Manila", "America/Juneau",
    ];
    let zone = |ch: &mut Choices| -> Tz {
        if ch.chance(75) {
            ch.pick(ZONES).parse().unwrap()
        } else {
            chrono_tz::TZ_VARIANTS[ch.draw(chrono_tz::TZ_VARIANTS.len() as u32) as usize]
        }
    };
    let low = ch.chance(50);
    let base_year = if low { 1900 } else { 9992 };
    let cfg = Cfg { max_rules: 3, base_year, wide_years: ch.chance(30), dense: ch.chance(40), max_day_offset: 20, jumpable_pct: 15, ..Cfg::default() };
    let g = gen_case(ch, &cfg)?;
    label_expr(&g.ast, case);
    let tz = zone(ch);
    let in_tz = zone(ch);
    let text = format!("{} @ {}", g.text, tz.name());
    let oh = g.oh.clone().with_context(
        opening_hours::Context::default().with_holidays(g.holidays.holidays.clone()).with_locale(TzLocation::new(tz)),
    );
    let utc = |y: i32, m: u32, d: u32| Utc.with_ymd_and_hms(y, m, d, 0, 0, 0).unwrap();
    let cap = Some(60_000);
    let list = |from: DateTime<Tz>, to: DateTime<Tz>| {
        capped(cap, || {
            oh.iter_range(from, to).take(300).map(|i| (i.range.start.with_timezone(&Utc), i.range.end.with_timezone(&Utc), i.kind, i.comments)).collect::<Vec<_>>()
        })
    };
    let mut nontrivial = false;
    for _ in 0..3 {
        let (t_utc, what): (DateTime<Utc>, &str) = match (low, ch.draw(5)) {
            (true, 0) => (DateTime::<Utc>::MIN_UTC, "at_the_first_representable_instant"),
            (true, 1 | 2) => (DateTime::<Utc>::MIN_UTC + Duration::minutes(ch.int(0, 16 * 60)), "within_16_hours_of_the_first_representable_instant"),
            (true, 3) => (utc(ch.pick(&[-262_000, -100_000, -1, 0, 1, 1000, 1800]), 1 + ch.draw(12), 1 + ch.draw(28)) + Duration::seconds(ch.int(0, 86_399)), "far_before_1900"),
            (true, _) => (utc(1899, 12, 1) + Duration::seconds(ch.int(0, 28 * 86_400)), "december_1899"),
            (false, 0) => (DateTime::<Utc>::MAX_UTC, "at_the_last_representable_instant"),
            (false, 1 | 2) => (DateTime::<Utc>::MAX_UTC - Duration::minutes(ch.int(0, 16 * 60)), "within_16_hours_of_the_last_representable_instant"),
            (false, 3) => (utc(ch.pick(&[10_001, 20_000, 100_000, 262_000]), 1 + ch.draw(12), 1 + ch.draw(28)) + Duration::seconds(ch.int(0, 86_399)), "far_after_9999"),
            (false, _) => (utc(10_000, 1, 2) + Duration::seconds(ch.int(0, 28 * 86_400)), "january_10000"),
        };
        let t = t_utc.with_timezone(&in_tz);
        let at = format!("{} UTC given in {}", t_utc.naive_utc(), in_tz.name());
        case.key = format!("{text}  t={at}");
        case.units += 1;
        case.label(what);
        let st = guard(|| (oh.state(t), oh.is_closed(t))).map_err(|p| format!("`{text}`: state({at}) panicked: {p}"))?;
        if st != (RuleKind::Closed, true) {
            return Err(format!("`{text}`: (state, is_closed)({at}) = {st:?} outside the supported range"));
        }
        if low {
            // reference: an ordinary instant that is before 1900 in every zone
            let r = utc(1899, 12, 29).with_timezone(&tz);
            let (got, exp) = match (
                capped(cap, || oh.next_change(t)).map_err(|p| format!("`{text}`: next_change({at}) panicked: {p}"))?,
                capped(cap, || oh.next_change(r)).map_err(|p| format!("`{text}`: next_change(1899-12-29 UTC) panicked: {p}"))?,
            ) {
                (Capped::Done(a), Capped::Done(b)) => (a, b),
                _ => {
                    case.exclude("too_far:next_change-exceeds-work-cap");
                    continue;
                }
            };
            if got.map(|x| x.with_timezone(&Utc)) != exp.map(|x| x.with_timezone(&Utc)) {
                return Err(format!("`{text}`: next_change({at}) = {got:?}, but from 1899-12-29T00:00 UTC (everything before 1900 is closed) it is {exp:?}"));
            }
            let to = utc(1900, 1, 1).with_timezone(&tz) + Duration::minutes(ch.int(0, 90 * 1440));
            let (a, b) = match (
                list(t, to).map_err(|p| format!("`{text}`: iter_range({at}, {to}) panicked: {p}"))?,
                list(r, to).map_err(|p| format!("`{text}`: iter_range(1899-12-29 UTC, {to}) panicked: {p}"))?,
            ) {
                (Capped::Done(a), Capped::Done(b)) => (a, b),
                _ => {
                    case.exclude("too_far:iter_range-exceeds-work-cap");
                    continue;
                }
            };
            // (where the local time of `from` cannot be represented the library starts the stream at the first
            // representable local time, up to the zone's offset after `from`; and a `from` in the first pass of a repeated
            // stretch of local time - a whole day when Rarotonga crossed the date line in December 1899 - is read as the
            // second pass (C09: the later instant): inside the window, not asserted equal)
            let first_ok = a.first().is_some_and(|f| f.0 >= t_utc && f.0 <= t_utc + Duration::hours(26) && f.2 == RuleKind::Closed && f.3.is_empty() && Some(f.1) == b.first().map(|x| x.1));
            if !first_ok || a.len() != b.len() || a[1..] != b[1..] {
                return Err(format!(
                    "`{text}`: iter_range({at}, {to}) = {:?} ...; from 1899-12-29T00:00 UTC the stream is {:?} ...: the first interval must start at `from` (or within the zone offset after it), be closed without comments and end where the reference's first interval ends, the rest must be identical ({} vs {} intervals)",
                    &a[..a.len().min(3)], &b[..b.len().min(3)], a.len(), b.len()
                ));
            }
            nontrivial |= a.len() > 1 && what != "december_1899";
        } else {
            match capped(cap, || oh.next_change(t)).map_err(|p| format!("`{text}`: next_change({at}) panicked: {p}"))? {
                Capped::Done(None) => {}
                Capped::Done(Some(x)) => return Err(format!("`{text}`: next_change({at}) = {x:?} from an instant beyond the supported range")),
                Capped::TooFar => return Err(format!("`{text}`: next_change({at}) evaluates more than 60 000 day schedules from an instant beyond the supported range")),
            }
            match capped(cap, || oh.iter_from(t).next().map(|i| (i.range, i.kind))).map_err(|p| format!("`{text}`: iter_from({at}) panicked: {p}"))? {
                Capped::Done(None) => {}
                Capped::Done(Some(i)) => return Err(format!("`{text}`: iter_from({at}) yields {i:?} although `from` lies beyond the supported range")),
                Capped::TooFar => return Err(format!("`{text}`: iter_from({at}) evaluates more than 60 000 day schedules from an instant beyond the supported range")),
            }
            // a window ending out there is cut at 10000-01-01 exactly like a window ending a few days after it
            let from = utc(9999, 12, 1).with_timezone(&tz) + Duration::minutes(ch.int(0, 30 * 1440));
            let r = utc(10_000, 1, 5).with_timezone(&tz);
            let (a, b) = match (
                list(from, t).map_err(|p| format!("`{text}`: iter_range({from}, {at}) panicked: {p}"))?,
                list(from, r).map_err(|p| format!("`{text}`: iter_range({from}, 10000-01-05 UTC) panicked: {p}"))?,
            ) {
                (Capped::Done(a), Capped::Done(b)) => (a, b),
                _ => {
                    case.exclude("too_far:iter_range-exceeds-work-cap");
                    continue;
                }
            };
            if a != b {
                return Err(format!(
                    "`{text}`: iter_range({from}, {at}) differs from iter_range({from}, 10000-01-05 UTC) although nothing is reported beyond 10000-01-01: {} vs {} intervals, last {:?} vs {:?}",
                    a.len(), b.len(), a.last(), b.last()
                ));
            }
            nontrivial |= a.len() > 1 && what != "january_10000";
        }
    }
    case.nontrivial = nontrivial;
    Ok(())
}

pub fn property() -> Property {
    Property {
        id: "C08",
        subs: vec![SubCheck {
            name: "bounds",
            rule: "generated expressions whose years are drawn next to 1900 or 9999 (selectors straddling the bounds, spans spilling past 9999-12-31; an eighth are constructed spills across a bound (selectors matching Dec 31 / the last week with spans reaching the next day), a quarter constructed rare recurrences: year-end dates with offsets, spans up to 48:00, shifted holidays, with calendars reaching into 1899) x 3 instants concentrated within 2 days of 1900-01-01 and 10000-01-01, exactly on / one second or minute next to them, far outside (years -262000..262000) and inside: state/schedule closed outside; next_change never before 1900, never >= 10000, > t, none beyond the range, and compared exactly with a forward scan when t < 1900 (first non-closed instant from 1900-01-01T00:00, also computed with the reference model of the documented semantics over the first 46 days of 1900 when the expression is in the model's decided domain) or t within the last 6 000 days; iter_range / iter_from intervals inside [from, min(to, 10000-01-01)], gap-free, closed outside the range; non-trivial = an exact next_change comparison from before 1900 or near 9999 was made",
            f: bounds,
            text_f: None,
            cases_quick: 8_000,
            cases_thorough: 400_000,
            max_choices: 380,
        },
        SubCheck {
            name: "zone_extremes",
            rule: "generated expressions with years next to 1900 or 9999 evaluated in a time-zone context (18 zones with extreme / odd offsets, or any chrono-tz zone) at instants given in a second zone: the first / last representable instant and up to 16 h inside (where the local time of the context may not be representable), years -262000..262000, December 1899 / January 10000: state closed; from before 1900, next_change and the intervals of iter_range up to a drawn end in early 1900 equal those obtained from 1899-12-29T00:00 UTC (first interval: starts at `from` or, where its local time is not representable, within 26 h after it (unrepresentable or repeated local time); closed, no comments, same end); beyond 9999: next_change none, iter_from yields nothing, and a window from December 9999 ending there equals the window ending on 10000-01-05; non-trivial = the compared stream has more than one interval and the instant is far outside or at the representable extremes",
            f: zone_extremes,
            text_f: None,
            cases_quick: 6_000,
            cases_thorough: 200_000,
            max_choices: 380,
        }],
        extra: None,
        assumptions: vec![
            "schedule_at is the pointwise oracle for the exact next_change comparisons; from before 1900 the reference model of C01 is a second, independent oracle for the first opening",
            "calls that need more than 60 000 day schedules are skipped as too_far",
        ],
    }
}
