//! C14 — Schedule algebra: overlay semantics and gap-free day iteration.
//!
//! Generated trees of `from_ranges` leaves combined by `addition` (left- and right-nested) are
//! evaluated by the library and by a per-minute model (`[Option<Kind>; 1440]`, last writer wins).

use std::sync::Arc;

use opening_hours::schedule::Schedule;
use opening_hours_syntax::sorted_vec::UniqueSortedVec;
use opening_hours_syntax::{ExtendedTime, RuleKind};

use crate::choice::Choices;
use crate::engine::Property;
use crate::runner::{Case, SubCheck};

type Model = [Option<RuleKind>; 1440];

fn et(m: u32) -> ExtendedTime {
    ExtendedTime::from_mins_from_midnight(m as u16).unwrap()
}

fn gen_minute(ch: &mut Choices) -> u32 {
    match ch.weighted(&[55, 15, 15, 15]) {
        0 => 60 * ch.draw(25),                       // full hours (collisions, adjacency)
        1 => 15 * ch.draw(97),                       // quarter hours
        2 => ch.pick(&[0u32, 1440, 1, 1439, 720]),   // edges
        _ => ch.draw(1441),                          // any minute
    }
}

struct Leaf {
    ranges: Vec<(u32, u32)>,
    kind: RuleKind,
    comment: Option<&'static str>,
}

/// splitmix64 step: deterministic expansion of a drawn seed (the seed is a choice, so the case
/// stays a pure function of the choice sequence).
fn mix(state: &mut u64) -> u64 {
    *state = state.wrapping_add(0x9E37_79B9_7F4A_7C15);
    let mut z = *state;
    z = (z ^ (z >> 30)).wrapping_mul(0xBF58_476D_1CE4_E5B9);
    z = (z ^ (z >> 27)).wrapping_mul(0x94D0_49BB_1331_11EB);
    z ^ (z >> 31)
}

/// A leaf with many ranges (20-140, bracketing the sizes at which sorting routines switch
/// strategy): starts on a grid so that several ranges share a start, lengths short enough to
/// leave holes, some empty or inverted.
/// A leaf whose ranges all share an instant: copies of one range, ranges nested around a centre, or a staircase of
/// equally long ranges starting a minute apart — 2 to 300 of them (bracketing 127/128, 255/256), so that the number
/// of ranges open at once crosses the limits of the small integer types (S-C14-h counts them in an `i8`).
fn gen_stacked_leaf(ch: &mut Choices) -> Leaf {
    let n = [2u32, 3, 16, 64, 126, 127, 128, 129, 130, 200, 254, 255, 256, 257, 300][ch.draw(15) as usize];
    let centre = 200 + ch.draw(1000);
    let mut ranges = Vec::new();
    match ch.draw(3) {
        0 => {
            let (a, b) = (centre - ch.draw(150), centre + 1 + ch.draw(150));
            ranges.extend((0..n).map(|_| (a, b)));
        }
        1 => ranges.extend((0..n).map(|i| (centre.saturating_sub(1 + i / 2), (centre + 1 + (i + 1) / 2).min(1440)))),
        _ => {
            // depth = min(n, len): pick the length next to n
            let len = (n + 3).saturating_sub(ch.draw(7)).max(1);
            let start = centre.min(1440 - n.min(400) - len.min(400));
            ranges.extend((0..n).map(|i| (start + i, (start + i + len).min(1440))));
        }
    }
    if ch.chance(30) {
        ranges.reverse();
    }
    let kind = ch.pick(&[RuleKind::Open, RuleKind::Closed, RuleKind::Unknown]);
    Leaf { ranges, kind, comment: ch.pick(&[None, Some("a")]) }
}

fn gen_large_leaf(ch: &mut Choices) -> Leaf {
    if ch.chance(30) {
        return gen_stacked_leaf(ch);
    }
    let n = [20u32, 31, 32, 33, 34, 40, 64, 65, 100, 140][ch.draw(10) as usize] + ch.draw(3);
    let grid = ch.pick(&[10u32, 40, 5, 1, 60, 15, 20]);
    let len_max = ch.pick(&[20u32, 5, 60, 100, 300, 8, 12]);
    let mut state = u64::from(ch.raw()) << 16 | u64::from(ch.raw());
    let mut ranges = Vec::new();
    for _ in 0..n {
        let a = (mix(&mut state) % u64::from(1440 / grid + 1)) as u32 * grid;
        let len = (mix(&mut state) % u64::from(len_max + 1)) as u32;
        let b = if mix(&mut state) % 20 == 0 { a.saturating_sub(len) } else { (a + len).min(1440) };
        ranges.push((a.min(1440), b));
    }
    let kind = ch.pick(&[RuleKind::Open, RuleKind::Closed, RuleKind::Unknown]);
    Leaf { ranges, kind, comment: None }
}

fn gen_leaf(ch: &mut Choices) -> Leaf {
    if ch.chance(4) {
        return gen_large_leaf(ch);
    }
    let n = ch.weighted(&[5, 30, 30, 15, 10, 5, 5]);
    let mut ranges = Vec::new();
    for _ in 0..n {
        let a = gen_minute(ch);
        let b = match ch.weighted(&[70, 10, 20]) {
            0 => gen_minute(ch),
            1 => a,
            _ => (a + 15 * (1 + ch.draw(12))).min(1440),
        };
        ranges.push((a, b));
    }
    let kind = ch.pick(&[RuleKind::Open, RuleKind::Closed, RuleKind::Unknown]);
    let comment = ch.pick(&[None, None, Some("a"), Some("b")]);
    Leaf { ranges, kind, comment }
}

fn leaf_desc(l: &Leaf) -> String {
    let rs: Vec<String> = l.ranges.iter().map(|(a, b)| format!("{}-{}", et(*a), et(*b))).collect();
    format!("{:?}[{}]{}", l.kind, rs.join(","), l.comment.map(|c| format!("\"{c}\"")).unwrap_or_default())
}

fn build_leaf(l: &Leaf) -> (Schedule, Model) {
    let comments: UniqueSortedVec<Arc<str>> = l.comment.iter().map(|c| Arc::from(*c)).collect::<Vec<_>>().into();
    let sched = Schedule::from_ranges(l.ranges.iter().map(|(a, b)| et(*a)..et(*b)), l.kind, &comments);
    let mut model: Model = [None; 1440];
    for (a, b) in &l.ranges {
        for m in *a..(*b).min(1440) {
            model[m as usize] = Some(l.kind);
        }
    }
    (sched, model)
}

fn overlay(mut below: Model, above: &Model) -> Model {
    for m in 0..1440 {
        if above[m].is_some() {
            below[m] = above[m];
        }
    }
    below
}

fn fmt_model_diff(model: &Model, got: &Model) -> String {
    let m = (0..1440).find(|m| model[*m] != got[*m]).unwrap();
    format!("first difference at {}: schedule has {:?}, model {:?}", et(m as u32), got[m], model[m])
}

/// Invariants of one schedule value against its model.
fn check_schedule(s: &Schedule, model: &Model, desc: &str, nontrivial: &mut bool) -> Result<(), String> {
    // raw ranges: disjoint, increasing, non-empty; painted minutes = model
    let raw = s.verif_ranges();
    let mut painted: Model = [None; 1440];
    let mut prev_end = None;
    for tr in raw {
        if tr.range.start >= tr.range.end {
            return Err(format!("{desc}: stored range {:?} is empty or inverted", tr.range));
        }
        if let Some(pe) = prev_end {
            if tr.range.start < pe {
                return Err(format!("{desc}: stored ranges overlap or are out of order at {:?} (previous end {pe:?})", tr.range));
            }
        }
        prev_end = Some(tr.range.end);
        if tr.range.end > ExtendedTime::MIDNIGHT_24 {
            return Err(format!("{desc}: stored range {:?} leaves 00:00-24:00", tr.range));
        }
        for m in tr.range.start.mins_from_midnight()..tr.range.end.mins_from_midnight() {
            painted[m as usize] = Some(tr.kind);
        }
        let c: Vec<&str> = tr.comments.iter().map(|x| &**x).collect();
        if !c.windows(2).all(|w| w[0] < w[1]) || !c.iter().all(|x| ["a", "b"].contains(x)) {
            return Err(format!("{desc}: comments {c:?} of {:?} are not sorted/unique/from the inputs", tr.range));
        }
    }
    if painted != *model {
        return Err(format!("{desc}: {}", fmt_model_diff(model, &painted)));
    }
    if s.is_empty() != model.iter().all(Option::is_none) {
        return Err(format!("{desc}: is_empty() = {}", s.is_empty()));
    }
    // iteration: gap-free tiling of 00:00-24:00, closed fills holes, neighbours differ
    let trs: Vec<_> = s.clone().into_iter().collect();
    if trs.is_empty() {
        return Err(format!("{desc}: iteration yields nothing"));
    }
    if trs[0].range.start != ExtendedTime::MIDNIGHT_00 || trs.last().unwrap().range.end != ExtendedTime::MIDNIGHT_24 {
        return Err(format!("{desc}: iteration covers {:?}..{:?}", trs[0].range.start, trs.last().unwrap().range.end));
    }
    for w in trs.windows(2) {
        if w[0].range.end != w[1].range.start {
            return Err(format!("{desc}: iteration has a gap or overlap between {:?} and {:?}", w[0].range, w[1].range));
        }
        if w[0].kind == w[1].kind {
            return Err(format!("{desc}: adjacent iterated ranges {:?} and {:?} have the same kind {:?}", w[0].range, w[1].range, w[0].kind));
        }
    }
    for tr in &trs {
        if tr.range.start >= tr.range.end {
            return Err(format!("{desc}: iterated range {:?} is empty", tr.range));
        }
        for m in tr.range.start.mins_from_midnight()..tr.range.end.mins_from_midnight() {
            let exp = model[m as usize].unwrap_or(RuleKind::Closed);
            if tr.kind != exp {
                return Err(format!("{desc}: iteration gives {:?} at {}, model {:?}", tr.kind, et(m.into()), exp));
            }
        }
    }
    if trs.len() >= 4 {
        *nontrivial = true;
    }
    Ok(())
}

fn algebra(ch: &mut Choices, case: &mut Case) -> Result<(), String> {
    let steps = 1 + ch.draw(8);
    let mut acc = Schedule::new();
    let mut acc_model: Model = [None; 1440];
    let mut desc = String::from("new()");
    let mut nontrivial_iter = false;
    let mut overlapping_inputs = false;
    check_schedule(&acc, &acc_model, &desc, &mut nontrivial_iter)?;
    for _ in 0..steps {
        // a group of 1..3 leaves, right-nested: acc + (l1 + (l2 + l3))
        let group = 1 + ch.weighted(&[70, 20, 10]);
        let mut leaves: Vec<Leaf> = (0..group).map(|_| gen_leaf(ch)).collect();
        // a range strictly inside one of the ranges the accumulated schedule stores (it splits
        // that range in two), of any kind
        let stored: Vec<(u32, u32)> = acc.verif_ranges().iter().map(|tr| (u32::from(tr.range.start.mins_from_midnight()), u32::from(tr.range.end.mins_from_midnight()))).filter(|(a, b)| b - a >= 3).collect();
        if !stored.is_empty() && ch.chance(30) {
            let (a, b) = stored[ch.draw(stored.len().min(60000) as u32) as usize];
            let lo = a + 1 + ch.draw((b - a - 2).max(1));
            let hi = (lo + 1 + ch.draw((b - lo - 1).max(1))).min(b - 1);
            leaves = vec![Leaf { ranges: vec![(lo, hi.max(lo + 1).min(b - 1))], kind: ch.pick(&[RuleKind::Open, RuleKind::Closed, RuleKind::Unknown]), comment: None }];
            case.label("range_nested_in_a_stored_range");
            if acc.verif_ranges().len() > 64 {
                case.label("nested_into_more_than_64_stored_ranges");
            }
        }
        let mut built: Vec<(Schedule, Model, String)> = Vec::new();
        for l in &leaves {
            let (s, m) = build_leaf(l);
            let d = format!("from_ranges({})", leaf_desc(l));
            case.key = d.clone();
            // from_ranges covers exactly the union of its inputs
            check_schedule(&s, &m, &d, &mut nontrivial_iter)?;
            let mut sorted: Vec<(u32, u32)> = l.ranges.iter().copied().filter(|(a, b)| a < b).collect();
            sorted.sort();
            if sorted.windows(2).any(|w| w[1].0 < w[0].1) {
                overlapping_inputs = true;
                case.label("overlapping_inputs");
                if sorted.windows(2).any(|w| w[1].1 <= w[0].1) {
                    case.label("nested_inputs");
                }
            }
            if l.ranges.iter().any(|(a, b)| a > b) {
                case.label("inverted_input");
            }
            if l.ranges.len() > 32 {
                case.label("leaf_with_more_than_32_ranges");
            }
            if l.ranges.len() > 127 {
                let mut depth = [0u16; 1441];
                for (a, b) in &l.ranges {
                    for m in *a..(*b).min(1440) {
                        depth[m as usize] += 1;
                    }
                }
                if depth.iter().any(|d| *d > 127) {
                    case.label("more_than_127_ranges_open_at_once");
                }
            }
            built.push((s, m, d));
        }
        let (mut gs, mut gm, mut gd) = built.pop().unwrap();
        while let Some((s, m, d)) = built.pop() {
            gm = overlay(m, &gm);
            gs = s.addition(gs);
            gd = format!("{d}.addition({gd})");
            case.key = gd.clone();
            check_schedule(&gs, &gm, &gd, &mut nontrivial_iter)?;
            case.label("right_nested");
        }
        acc_model = overlay(acc_model, &gm);
        acc = acc.addition(gs);
        desc = format!("{desc}.addition({gd})");
        case.key = desc.clone();
        check_schedule(&acc, &acc_model, &desc, &mut nontrivial_iter)?;
    }
    case.units = u64::from(steps);
    case.nontrivial = overlapping_inputs && nontrivial_iter;
    case.key = desc;
    Ok(())
}

pub fn property() -> Property {
    Property {
        id: "C14",
        subs: vec![SubCheck {
            name: "algebra",
            rule: "trees of 1-8 additions over from_ranges leaves (0-6 ranges each on an hour/quarter/minute grid, 4 % of the leaves with 20-142 ranges expanded from a drawn seed — up to ~100 stored pieces —, 30 % of the steps add a range strictly inside a stored range: overlapping, nested, adjacent, empty, inverted, identical starts; three kinds; optional comment), left- and right-nested, every intermediate value checked against a per-minute last-writer-wins model: stored ranges (hook H2) disjoint/increasing/non-empty/within the day, painted minutes = model, is_empty, iteration tiles 00:00-24:00 gap-free with closed holes and differing neighbours; non-trivial = some leaf had overlapping input ranges and some iterated value had >= 4 periods",
            f: algebra,
            text_f: None,
            cases_quick: 200_000,
            cases_thorough: 1_500_000,
            max_choices: 400,
        }],
        extra: None,
        assumptions: vec![
            "hook H2 (Schedule::verif_ranges) exposes the stored ranges unmodified",
            "the schedule! macro is not generated (it expands to from_ranges + addition, which are)",
        ],
    }
}
