//! C09 — time-zone contexts evaluate on local wall-clock time and map results back.
//!
//! (a) differential: `OpeningHours<TzLocation<Tz>>` at an instant (given in any zone) equals the
//! `NoLocation` evaluation at that instant's wall-clock time in the context zone; (b) every
//! returned instant equals `map(naive result)` where `map` is written independently of the
//! library (later instant when ambiguous, the transition instant when inside a gap); (c) bounds
//! never go backwards in absolute time.

use chrono::{DateTime, Duration, LocalResult, NaiveDate, NaiveDateTime, Offset, TimeZone, Timelike};
use chrono_tz::Tz;
use opening_hours::localization::TzLocation;
use opening_hours::{Context, OpeningHours};

use crate::choice::Choices;
use crate::engine::Property;
use crate::gen::expr::Cfg;
use crate::known;
use crate::props::c03::{capped, Capped};
use crate::props::common::gen_case;
use crate::runner::{guard, Case, SubCheck, SubOutcome, Tier};
use crate::util::{par_enumerate, Acc};

pub fn offset_at(tz: Tz, utc: NaiveDateTime) -> i64 {
    i64::from(tz.offset_from_utc_datetime(&utc).fix().local_minus_utc())
}

fn at_secs(s: i64) -> NaiveDateTime {
    DateTime::from_timestamp(s, 0).unwrap().naive_utc()
}

/// UTC instants in `[a, b)` at which the zone's offset changes (scan with the given step, then
/// bisection on integer seconds). Some zones change twice within a few hours (Portugal
/// 1992-09-27, Vilnius 1998-03-29), so the step must be small.
pub fn transitions_step(tz: Tz, a: NaiveDateTime, b: NaiveDateTime, step: Duration) -> Vec<NaiveDateTime> {
    let mut out = Vec::new();
    let mut u = a;
    let mut o_u = offset_at(tz, u);
    while u < b {
        let v = u + step;
        let o_v = offset_at(tz, v);
        if o_u != o_v {
            let (mut lo, mut hi) = (u.and_utc().timestamp(), v.and_utc().timestamp());
            while hi - lo > 1 {
                let mid = lo + (hi - lo) / 2;
                if offset_at(tz, at_secs(mid)) == o_u {
                    lo = mid;
                } else {
                    hi = mid;
                }
            }
            out.push(at_secs(hi));
        }
        u = v;
        o_u = o_v;
    }
    out
}

/// Transitions of a long range (30 min scan step).
pub fn transitions(tz: Tz, a: NaiveDateTime, b: NaiveDateTime) -> Vec<NaiveDateTime> {
    transitions_step(tz, a, b, Duration::minutes(30))
}

/// Transitions within 36 h of an instant (5 min scan step).
fn transitions_near(tz: Tz, n: NaiveDateTime) -> Vec<NaiveDateTime> {
    transitions_step(tz, n - Duration::hours(36), n + Duration::hours(36), Duration::minutes(5))
}

/// Independent mapping of a wall-clock time to an instant of the zone: the later instant when
/// the time is ambiguous, the transition instant when it does not exist.
pub fn oracle_map(tz: Tz, n: NaiveDateTime) -> Result<DateTime<Tz>, String> {
    let near = transitions_near(tz, n);
    let mut offsets: Vec<i64> = vec![offset_at(tz, n - Duration::hours(36)), offset_at(tz, n + Duration::hours(36))];
    for t in &near {
        for o in [offset_at(tz, *t - Duration::seconds(1)), offset_at(tz, *t)] {
            if !offsets.contains(&o) {
                offsets.push(o);
            }
        }
    }
    let candidates: Vec<NaiveDateTime> = offsets
        .iter()
        .filter_map(|o| {
            let u = n - Duration::seconds(*o);
            (offset_at(tz, u) == *o).then_some(u)
        })
        .collect();
    if let Some(u) = candidates.iter().max() {
        return Ok(tz.from_utc_datetime(u));
    }
    // no instant has this wall-clock time: the first valid instant after it is the transition
    // which skipped it
    for t in &near {
        let before = offset_at(tz, *t - Duration::seconds(1));
        let after = offset_at(tz, *t);
        let (local_before, local_after) = (*t + Duration::seconds(before), *t + Duration::seconds(after));
        if local_before <= n && n < local_after {
            return Ok(tz.from_utc_datetime(t));
        }
    }
    Err(format!("harness: no mapping found for {n} in {tz}"))
}

fn local_kind(tz: Tz, n: NaiveDateTime) -> &'static str {
    match tz.from_local_datetime(&n) {
        LocalResult::None => "gap",
        LocalResult::Ambiguous(..) => "fold",
        LocalResult::Single(_) => "plain",
    }
}

/// Is the gap whose end follows `n` aligned on a whole minute? (known finding D-TZ2 otherwise)
fn gap_end_subminute(tz: Tz, n: NaiveDateTime) -> bool {
    for t in transitions_near(tz, n) {
        let before = offset_at(tz, t - Duration::seconds(1));
        let after = offset_at(tz, t);
        let (lb, la) = (t + Duration::seconds(before), t + Duration::seconds(after));
        if lb <= n && n < la {
            return la.second() != 0 || lb.second() != 0;
        }
    }
    false
}

struct Zone {
    tz: Tz,
    /// (transition instant UTC, offset before, offset after)
    transition: Option<(NaiveDateTime, i64, i64)>,
    year: i32,
}

fn gen_zone(ch: &mut Choices) -> Zone {
    // zones / years without any transition are redrawn twice
    let mut z = gen_zone_once(ch);
    for _ in 0..2 {
        if z.transition.is_some() {
            break;
        }
        z = gen_zone_once(ch);
    }
    z
}

fn gen_zone_once(ch: &mut Choices) -> Zone {
    let tz = if ch.chance(30) {
        ch.pick(&[
            chrono_tz::Europe::Paris,
            chrono_tz::Europe::London,
            chrono_tz::America::New_York,
            chrono_tz::Australia::Lord_Howe,
            chrono_tz::Asia::Kathmandu,
            chrono_tz::Pacific::Apia,
            chrono_tz::America::St_Johns,
            chrono_tz::Pacific::Chatham,
            chrono_tz::Africa::Casablanca,
            chrono_tz::Asia::Tehran,
            chrono_tz::America::Santiago,
            chrono_tz::Antarctica::Troll,
        ])
    } else {
        chrono_tz::TZ_VARIANTS[ch.draw(chrono_tz::TZ_VARIANTS.len() as u32) as usize]
    };
    let year = match ch.weighted(&[60, 25, 15]) {
        0 => 1970 + ch.int(0, 67) as i32,
        1 => 1900 + ch.int(0, 69) as i32,
        _ => 2038 + ch.int(0, 62) as i32,
    };
    let a = NaiveDate::from_ymd_opt(year, 1, 1).unwrap().and_hms_opt(0, 0, 0).unwrap();
    let b = NaiveDate::from_ymd_opt(year + 1, 1, 1).unwrap().and_hms_opt(0, 0, 0).unwrap();
    let ts = transitions(tz, a, b);
    let transition = if ts.is_empty() {
        None
    } else {
        let t = ts[ch.draw(ts.len() as u32) as usize];
        Some((t, offset_at(tz, t - Duration::seconds(1)), offset_at(tz, t)))
    };
    Zone { tz, transition, year }
}

fn hhmm(n: NaiveDateTime) -> String {
    format!("{:02}:{:02}", n.hour(), n.minute())
}

fn zones(ch: &mut Choices, case: &mut Case) -> Result<(), String> {
    let z = gen_zone(ch);
    let tz = z.tz;
    // expression: generated, or spans placed on the local times of the transition
    let cfg = Cfg { max_rules: 3, base_year: z.year.clamp(1900, 9990), wide_years: false, dense: true, repeats: false, ..Cfg::default() };
    let mut g = gen_case(ch, &cfg)?;
    if let (Some((t, before, after)), true) = (z.transition, ch.chance(60)) {
        let local = t + Duration::seconds(before.min(after));
        let p = |ch: &mut Choices| local + Duration::minutes(ch.pick(&[0i64, 30, -30, 60, -60, 15, 90, -90, 120, 45, -15]));
        let (a, b, c, d) = (p(ch), p(ch), p(ch), p(ch));
        let text = match ch.draw(4) {
            0 => format!("{}-{}", hhmm(a), hhmm(b)),
            1 => format!("{}-{} unknown, {}-{}", hhmm(a), hhmm(b), hhmm(c), hhmm(d)),
            2 => format!("{}-{}; {} {}-{} \"x\"", hhmm(a), hhmm(b), ["Mo", "Tu", "We", "Th", "Fr", "Sa", "Su"][chrono::Datelike::weekday(&local).num_days_from_monday() as usize], hhmm(c), hhmm(d)),
            _ => format!("00:00-{} open, {}-{} unknown", hhmm(a), hhmm(c), hhmm(d)),
        };
        g.oh = OpeningHours::parse(&text).map_err(|e| format!("constructed sentence `{text}` rejected: {e}"))?;
        g.text = text;
        case.label("spans_on_transition");
    }
    let naive_oh = g.oh.clone();
    let locale = TzLocation::new(tz);
    let tz_oh = g.oh.clone().with_context(
        Context::default()
            .with_holidays(g.holidays.holidays.clone())
            .with_locale(locale),
    );
    let mut nontrivial = false;
    for _ in 0..3 {
        // instant: within +-3 h of the transition (minute or sub-minute), or anywhere in the year
        let utc = match (z.transition, ch.weighted(&[80, 20])) {
            (Some((t, before, after)), 0) => {
                let jump = (after - before).abs().max(60);
                let secs = match ch.weighted(&[30, 15, 15, 40]) {
                    0 => 60 * ch.int(-180, 180),
                    1 => 60 * ch.int(-180, 180) + ch.pick(&[1i64, 59, 30]),
                    2 => ch.int(-10800, 10800),
                    // inside the repeated hour (fold) / right around the skipped one (gap)
                    _ => ch.int(-jump, jump - 1) / 60 * 60 + ch.pick(&[0i64, 0, 0, 1, 59]),
                };
                // align on whole minutes of the *local* clock unless sub-minute was drawn
                t + Duration::seconds(secs)
            }
            _ => NaiveDate::from_ymd_opt(z.year, 1, 1).unwrap().and_hms_opt(0, 0, 0).unwrap() + Duration::minutes(ch.int(0, 365 * 1440)),
        };
        let inst = tz.from_utc_datetime(&utc);
        let input_tz = chrono_tz::TZ_VARIANTS[ch.draw(chrono_tz::TZ_VARIANTS.len() as u32) as usize];
        let given = inst.with_timezone(&input_tz);
        let naive = inst.naive_local();
        case.key = format!("{}  zone {tz}  instant {inst} (given as {given})", g.text);
        case.units += 1;
        let kind_here = local_kind(tz, naive);
        if kind_here != "plain" {
            nontrivial = true;
            case.label(if kind_here == "gap" { "instant_in_gap" } else { "instant_in_fold" });
        }
        // (a) state
        let st_tz = guard(|| tz_oh.state(given)).map_err(|p| format!("`{}` in {tz}: state({given}) panicked: {p}", g.text))?;
        let st_naive = guard(|| naive_oh.clone().with_context(Context::default().with_holidays(g.holidays.holidays.clone())).state(naive)).map_err(|p| format!("state({naive}) panicked: {p}"))?;
        if st_tz != st_naive {
            return Err(format!("`{}` in {tz}: state({inst}) = {st_tz:?} but the expression is {st_naive:?} at the wall-clock time {naive}", g.text));
        }
        let plain_oh = naive_oh.clone().with_context(Context::default().with_holidays(g.holidays.holidays.clone()));
        // (a)+(b) next_change
        let cap = Some(20_000);
        let nc_tz = match capped(cap, || tz_oh.next_change(given)).map_err(|p| format!("`{}` in {tz}: next_change({given}) panicked: {p}", g.text))? {
            Capped::Done(x) => x,
            Capped::TooFar => {
                case.exclude("too_far:next_change-exceeds-work-cap");
                continue;
            }
        };
        let nc_naive = guard(|| plain_oh.next_change(naive)).map_err(|p| format!("next_change({naive}) panicked: {p}"))?;
        let mut check_bound = |got: DateTime<Tz>, naive_result: NaiveDateTime, what: &str| -> Result<bool, String> {
            let exp = oracle_map(tz, naive_result)?;
            let k = local_kind(tz, naive_result);
            if k != "plain" {
                nontrivial = true;
            }
            if got != exp {
                if k == "gap" && gap_end_subminute(tz, naive_result) && known::active("C09", "tz_gap_end_subminute") {
                    return Ok(false);
                }
                return Err(format!(
                    "`{}` in {tz}: {what} is {got} but the naive result {naive_result} ({k}) maps to {exp}",
                    g.text
                ));
            }
            Ok(true)
        };
        match (nc_tz, nc_naive) {
            (None, None) => {}
            (Some(got), Some(n)) => {
                if !check_bound(got, n, &format!("next_change({inst})"))? {
                    case.exclude("known:tz_gap_end_subminute");
                }
            }
            (a, b) => return Err(format!("`{}` in {tz}: next_change({inst}) = {a:?} but without location at {naive} it is {b:?}", g.text)),
        }
        // (a)+(b)+(c) intervals
        let to = given + Duration::minutes(ch.pick(&[1800i64, 180, 60, 4320, 30]));
        let naive_to = to.with_timezone(&tz).naive_local();
        let got: Vec<_> = match capped(cap, || tz_oh.iter_range(given, to).take(60).collect()).map_err(|p| format!("`{}` in {tz}: iter_range({given}, {to}) panicked: {p}", g.text))? {
            Capped::Done(x) => x,
            Capped::TooFar => {
                case.exclude("too_far:iter_range-exceeds-work-cap");
                continue;
            }
        };
        let exp: Vec<_> = guard(|| plain_oh.iter_range(naive, naive_to).take(60).collect()).map_err(|p| format!("iter_range({naive}, {naive_to}) panicked: {p}"))?;
        if got.len() != exp.len() {
            return Err(format!("`{}` in {tz}: iter_range({inst}, {to}) yields {} intervals, without location {} (wall-clock window {naive}..{naive_to})", g.text, got.len(), exp.len()));
        }
        let mut last_end: Option<DateTime<Tz>> = None;
        for (gi, ei) in got.iter().zip(&exp) {
            if gi.kind != ei.kind || gi.comments != ei.comments {
                return Err(format!("`{}` in {tz}: iter_range({inst}, {to}) interval {:?} is {:?}{:?}, without location {:?} is {:?}{:?}", g.text, gi.range, gi.kind, gi.comments, ei.range, ei.kind, ei.comments));
            }
            let ok1 = check_bound(gi.range.start, ei.range.start, &format!("start of an interval of iter_range({inst}, {to})"))?;
            let ok2 = check_bound(gi.range.end, ei.range.end, &format!("end of an interval of iter_range({inst}, {to})"))?;
            if !(ok1 && ok2) {
                case.exclude("known:tz_gap_end_subminute");
            }
            if gi.range.start > gi.range.end || last_end.is_some_and(|l| gi.range.start < l) {
                return Err(format!("`{}` in {tz}: iter_range({inst}, {to}) goes backwards in absolute time at {:?} (previous end {last_end:?})", g.text, gi.range));
            }
            last_end = Some(gi.range.end);
        }
    }
    case.nontrivial = nontrivial;
    Ok(())
}

/// Replay: "expression @ Zone/Name @ utc instant (%Y-%m-%dT%H:%M:%S)".
fn zones_text(text: &str, case: &mut Case) -> Result<(), String> {
    case.key = text.to_string();
    let parts: Vec<&str> = text.split(" @ ").collect();
    let [expr, zone, instant] = parts.as_slice() else { return Err("bad replay text".into()) };
    let tz: Tz = zone.trim().parse().map_err(|_| "bad zone")?;
    let utc = NaiveDateTime::parse_from_str(instant.trim(), "%Y-%m-%dT%H:%M:%S").map_err(|e| e.to_string())?;
    check_at(expr, tz, utc)
}

/// State, next_change and the intervals of the next hours of `expr` in zone `tz` at the UTC
/// instant `utc`, against the evaluation without location and the independent mapping.
fn check_at(expr: &str, tz: Tz, utc: NaiveDateTime) -> Result<(), String> {
    let plain = OpeningHours::parse(expr).map_err(|e| e.to_string())?;
    let tz_oh = plain.clone().with_context(Context::default().with_locale(TzLocation::new(tz)));
    // chrono's representation of a leap second (second 59 with more than 1e9 nanoseconds) is an
    // instant like any other: same wall-clock minute
    // (not next to a transition, where the 61st second of a minute has no agreed meaning)
    if utc.second() == 59 && offset_at(tz, utc - Duration::seconds(3)) == offset_at(tz, utc + Duration::seconds(3)) {
        use chrono::Timelike as _;
        if let Some(leap) = utc.with_nanosecond(1_500_000_000) {
            let inst = tz.from_utc_datetime(&leap);
            let naive = inst.naive_local();
            let (a, b) = (guard(|| tz_oh.state(inst)).map_err(|p| format!("`{expr}` in {tz}: state({inst:?}) panicked: {p}"))?, plain.state(naive));
            if a != b {
                return Err(format!("`{expr}` in {tz}: state at the leap-second instant {inst:?} = {a:?} but the expression is {b:?} at the wall-clock time {naive:?}"));
            }
            if let Some(first) = guard(|| tz_oh.iter_from(inst).next()).map_err(|p| format!("`{expr}` in {tz}: iter_from({inst:?}) panicked: {p}"))? {
                if first.range.start != inst {
                    return Err(format!("`{expr}` in {tz}: iter_from at the leap-second instant {inst:?} starts at {:?}", first.range.start));
                }
            }
        }
    }
    let inst = tz.from_utc_datetime(&utc);
    let naive = inst.naive_local();
    let (a, b) = (guard(|| tz_oh.state(inst)).map_err(|p| format!("`{expr}` in {tz}: state({inst}) panicked: {p}"))?, plain.state(naive));
    if a != b {
        return Err(format!("`{expr}` in {tz}: state({inst}) = {a:?} but the expression is {b:?} at the wall-clock time {naive}"));
    }
    match (guard(|| tz_oh.next_change(inst)).map_err(|p| format!("`{expr}` in {tz}: next_change({inst}) panicked: {p}"))?, plain.next_change(naive)) {
        (None, None) => {}
        (Some(got), Some(n)) => {
            let exp = oracle_map(tz, n)?;
            if got != exp {
                return Err(format!("`{expr}` in {tz}: next_change({inst}) = {got} but the naive result {n} maps to {exp}"));
            }
            if got <= inst {
                return Err(format!("`{expr}` in {tz}: next_change({inst}) = {got} is not after the query instant"));
            }
        }
        (x, y) => return Err(format!("`{expr}` in {tz}: next_change({inst}) = {x:?}, without location {y:?}")),
    }
    let to = inst + Duration::hours(9);
    let naive_to = to.naive_local();
    let got: Vec<_> = guard(|| tz_oh.iter_range(inst, to).take(20).collect()).map_err(|p| format!("`{expr}` in {tz}: iter_range({inst}, {to}) panicked: {p}"))?;
    let exp: Vec<_> = plain.iter_range(naive, naive_to).take(20).collect();
    if got.len() != exp.len() {
        return Err(format!("`{expr}` in {tz}: iter_range({inst}, {to}) yields {} intervals, without location {} (wall-clock window {naive}..{naive_to})", got.len(), exp.len()));
    }
    let mut last_end: Option<DateTime<Tz>> = None;
    for (gi, ei) in got.iter().zip(&exp) {
        for (g, e, what) in [(gi.range.start, ei.range.start, "start"), (gi.range.end, ei.range.end, "end")] {
            let m = oracle_map(tz, e)?;
            if g != m {
                return Err(format!("`{expr}` in {tz}: {what} of an interval of iter_range({inst}, {to}) is {g} but the naive result {e} maps to {m}"));
            }
        }
        if gi.kind != ei.kind || gi.range.start > gi.range.end || last_end.is_some_and(|l| gi.range.start < l) {
            return Err(format!("`{expr}` in {tz}: iter_range({inst}, {to}) interval {:?} {:?}: wrong kind (without location {:?}) or going backwards in absolute time (previous end {last_end:?})", gi.range, gi.kind, ei.kind));
        }
        last_end = Some(gi.range.end);
    }
    Ok(())
}

/// All offset transitions of a zone between 1900 and 2046 (UTC instants): coarse scan with 6 h
/// steps, then every hit is re-scanned at 5 min steps over +-36 h, which finds the second change
/// of the zones that changed twice within a day.
pub fn all_transitions(tz: Tz) -> Vec<NaiveDateTime> {
    let a = NaiveDate::from_ymd_opt(1900, 1, 1).unwrap().and_hms_opt(0, 0, 0).unwrap();
    let b = NaiveDate::from_ymd_opt(2046, 1, 1).unwrap().and_hms_opt(0, 0, 0).unwrap();
    let mut out: Vec<NaiveDateTime> = Vec::new();
    for t in transitions_step(tz, a, b, Duration::hours(6)) {
        for u in transitions_near(tz, t) {
            if !out.contains(&u) {
                out.push(u);
            }
        }
    }
    out.sort();
    out
}

/// Exhaustive over the tz database: every gap and fold of every zone.
fn check_zone_transitions(index: u64, acc: &mut Acc) {
    let tz = chrono_tz::TZ_VARIANTS[index as usize];
    let ts = all_transitions(tz);
    for (i, t) in ts.iter().enumerate() {
        let before = offset_at(tz, *t - Duration::seconds(1));
        let after = offset_at(tz, *t);
        let (lo, hi) = (*t + Duration::seconds(before.min(after)), *t + Duration::seconds(before.max(after)));
        // a wall-clock minute inside the skipped / repeated stretch (its middle, or its first
        // whole minute when it is shorter than two minutes)
        let mid = lo + Duration::seconds((hi - lo).num_seconds() / 2);
        let mid = mid - Duration::seconds(i64::from(mid.second()));
        let inside = if mid >= lo && mid < hi { mid } else { lo + Duration::seconds(60 - i64::from(lo.second()) % 60) };
        let close = i > 0 && *t - ts[i - 1] < Duration::hours(30) || i + 1 < ts.len() && ts[i + 1] - *t < Duration::hours(30);
        // ... and, since the default sun hours (06:00, 07:00, 19:00, 20:00 without coordinates) are
        // wall-clock times like any other, spans built on them: some zones skipped exactly those
        let exprs = [
            format!("{}-{}", hhmm(inside), hhmm(inside + Duration::hours(7))),
            format!("00:00-{} open, {}-{} unknown", hhmm(inside), hhmm(inside), hhmm(inside + Duration::minutes(30))),
            "(sunrise+01:00)-12:00; sunset-02:00 unknown".to_string(),
            "10:00-(dusk-03:00); (dawn-00:30)-(dawn+00:15) unknown".to_string(),
        ];
        for expr in &exprs {
            for delta in [-70i64 * 60, -10 * 60, 0, 10 * 60, -1, 7 * 3600 + 59] {
                let utc = *t + Duration::seconds(delta);
                acc.case(true);
                if let Err(m) = check_at(expr, tz, utc) {
                    return acc.fail("zones", format!("{expr} @ {tz} @ {}", utc.format("%Y-%m-%dT%H:%M:%S")), m);
                }
            }
        }
        acc.label(if after > before { "gap" } else { "fold" });
        if close {
            acc.label("another_transition_within_30_hours");
        }
        if i % 97 == 0 {
            acc.sample(|| format!("{tz}: transition at {t} UTC ({before} s -> {after} s), expression `{}`", exprs[0]));
        }
    }
}

fn extra(_tier: Tier, _seed: u64) -> Vec<SubOutcome> {
    vec![par_enumerate(
        "all_transitions",
        "exhaustive over the tz database: every offset transition 1900..2045 of each of the 596 zones (6 h scan, re-scanned at 5 min steps over +-36 h around every hit) x 4 expressions (2 with a state change on a wall-clock minute inside the skipped (gap) or repeated (fold) stretch, 2 built on the default sun hours with offsets) x 6 instants (70 and 10 min before, 1 s before, at, 10 min and 7 h 00 min 59 s after the transition; instants at second 59 are also asked as chrono leap seconds): state, next_change and the intervals of the next 9 hours against the evaluation without location and the independent local->instant mapping; every case is non-trivial (a gap or a fold is involved)",
        chrono_tz::TZ_VARIANTS.len() as u64,
        check_zone_transitions,
    )]
}

pub fn property() -> Property {
    Property {
        id: "C09",
        subs: vec![SubCheck {
            name: "zones",
            rule: "zone drawn from all 596 chrono_tz::TZ_VARIANTS (30 % from a list of zones with half-hour DST, date-line changes, irregular rules) x year 1900..2100 x one of its offset transitions (located by a 12 h scan + bisection on integer Unix seconds) x expression (generated, or spans constructed on the transition's local times +-15..120 min) x 3 instants within +-3 h of the transition at minute and sub-minute resolution (20 % anywhere in the year), handed over in another random zone: state, next_change and up to 60 intervals of iter_range must equal the NoLocation evaluation at the wall-clock time, every returned instant must equal an independently written local->instant mapping (later when ambiguous, transition instant in a gap), bounds never go backwards; non-trivial = the probed instant or a returned bound lies inside a gap or a fold",
            f: zones,
            text_f: Some(zones_text),
            cases_quick: 12_000,
            cases_thorough: 600_000,
            max_choices: 360,
        }],
        extra: Some(extra),
        assumptions: vec![
            "chrono-tz's offset lookup (offset_from_utc_datetime) is trusted; the local->instant mapping and the transition finder are harness code",
            "the NoLocation evaluation is the reference side of the differential (its own correctness: C01-C03)",
        ],
    }
}
