//! Small helpers shared by the checks.

use std::sync::Mutex;
use std::time::Instant;

use crate::runner::{Failure, Stats, SubOutcome};

/// Accumulator used by exhaustive (enumerated) checks.
#[derive(Default)]
pub struct Acc {
    pub stats: Stats,
    pub failures: Vec<Failure>,
}

impl Acc {
    pub fn case(&mut self, nontrivial: bool) {
        self.stats.cases += 1;
        self.stats.units += 1;
        if nontrivial {
            self.stats.nontrivial_total += 1;
            self.stats.distinct_counted += 1;
        }
    }

    pub fn label(&mut self, l: &'static str) {
        *self.stats.labels.entry(l).or_default() += 1;
    }

    pub fn sample(&mut self, s: impl FnOnce() -> String) {
        if self.stats.samples.len() < 3 {
            self.stats.samples.push(s());
        }
    }

    pub fn fail(&mut self, sub: &str, text: String, message: String) {
        if self.failures.len() < 3 {
            self.failures.push(Failure {
                sub: sub.to_string(),
                choices: Vec::new(),
                text: Some(text.clone()),
                key: text,
                message,
            });
        }
    }
}

/// Enumerate `0..n` in parallel chunks; every index is visited exactly once.
pub fn par_enumerate(
    name: &'static str,
    rule: &'static str,
    n: u64,
    f: impl Fn(u64, &mut Acc) + Sync,
) -> SubOutcome {
    let start = Instant::now();
    let workers = std::thread::available_parallelism().map(|x| x.get()).unwrap_or(4) as u64;
    let chunks = (workers * 8).min(n.max(1));
    let next = std::sync::atomic::AtomicU64::new(0);
    let merged = Mutex::new(Acc::default());
    std::thread::scope(|scope| {
        for _ in 0..workers {
            scope.spawn(|| loop {
                let c = next.fetch_add(1, std::sync::atomic::Ordering::SeqCst);
                if c >= chunks {
                    break;
                }
                let lo = n * c / chunks;
                let hi = n * (c + 1) / chunks;
                let mut acc = Acc::default();
                for i in lo..hi {
                    let r = crate::runner::guard(|| f(i, &mut acc));
                    if let Err(p) = r {
                        acc.fail(name, format!("index {i}"), format!("panic: {p}"));
                    }
                }
                let mut m = merged.lock().unwrap();
                m.stats.merge(acc.stats);
                for fl in acc.failures {
                    if m.failures.len() < 3 {
                        m.failures.push(fl);
                    }
                }
            });
        }
    });
    let acc = merged.into_inner().unwrap();
    SubOutcome {
        name,
        rule,
        stats: acc.stats,
        failures: acc.failures,
        wall_s: start.elapsed().as_secs_f64(),
        exhaustive: true,
    }
}
