//! Reader for `/verif/known_findings.txt`.
//!
//! ```text
//! known: property=C09 id=KF-C09-1 signature=tz_gap_end_subminute replay=replays/C09/kf-c09-1.json :: <what fails>
//! fixed: property=C04 <commit> <what failed> replay=replays/C04/fixed-xyz.json
//! ```
//!
//! `known:` lines drive (a) exclusion by construction in the generators (`active(signature)`),
//! counted in the evidence, and (b) the `KNOWN-FINDING:` output for the pinned replay while it
//! still fails. `fixed:` lines are documentation; their replays are ordinary pinned regression
//! inputs which must pass. Nothing is ever written to the file at run time.

use std::sync::OnceLock;

#[derive(Debug, Clone)]
pub struct Known {
    pub property: String,
    pub id: String,
    pub signature: String,
    pub replay: Option<String>,
    pub text: String,
}

static KNOWN: OnceLock<Vec<Known>> = OnceLock::new();

pub fn verif_root() -> std::path::PathBuf {
    std::env::var_os("VERIF_ROOT")
        .map(Into::into)
        .unwrap_or_else(|| "/verif".into())
}

fn field<'a>(head: &'a str, name: &str) -> Option<&'a str> {
    head.split_whitespace()
        .find_map(|tok| tok.strip_prefix(name)?.strip_prefix('='))
}

pub fn all() -> &'static [Known] {
    KNOWN.get_or_init(|| {
        let path = verif_root().join("known_findings.txt");
        let Ok(content) = std::fs::read_to_string(path) else {
            return Vec::new();
        };
        content
            .lines()
            .filter_map(|line| {
                let rest = line.trim().strip_prefix("known:")?;
                let (head, text) = rest.split_once("::").unwrap_or((rest, ""));
                Some(Known {
                    property: field(head, "property")?.to_string(),
                    id: field(head, "id").unwrap_or("?").to_string(),
                    signature: field(head, "signature").unwrap_or("").to_string(),
                    replay: field(head, "replay").map(str::to_string),
                    text: text.trim().to_string(),
                })
            })
            .collect()
    })
}

/// Is a known finding with this signature listed for this property?
pub fn active(property: &str, signature: &str) -> bool {
    all()
        .iter()
        .any(|k| k.property == property && k.signature == signature)
}

/// Known finding attached to a pinned replay file (path relative to the verif root).
pub fn for_replay(property: &str, rel_path: &str) -> Option<&'static Known> {
    all()
        .iter()
        .find(|k| k.property == property && k.replay.as_deref() == Some(rel_path))
}
