//! `ohv` — property-based testing / fuzzing harness for opening-hours-rs (see /verif/DESIGN.md).

pub mod choice;
pub mod engine;
pub mod fuzz;
pub mod gen;
pub mod geo;
pub mod known;
pub mod model;
pub mod props;
pub mod pyoracle;
pub mod runner;
pub mod util;
