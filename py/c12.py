#!/usr/bin/env python3
"""C12 — the Python bindings return what the Rust core returns.

Hypothesis drives the freshly built extension module; every expected value comes from
`ohv py-oracle`, a JSON-lines subprocess that builds the *documented* equivalent context with the
Rust core directly. Datetimes are compared on (naive local fields, zone key, fold) — never on
UTC offsets computed by Python, so tz database version skew cannot raise alarms.

usage: c12.py run <quick|thorough>   |   c12.py replay <file>
"""
import ast
import datetime as dt
import hashlib
import json
import os
import subprocess
import sys
import time
import zoneinfo

VERIF_ROOT = os.environ.get("VERIF_ROOT", os.path.dirname(os.path.dirname(os.path.abspath(__file__))))
OHV = os.path.join(VERIF_ROOT, "harness", "target", "release", "ohv")
sys.path.insert(0, os.path.join(VERIF_ROOT, "harness", "target", "pyext", "mod"))

import hypothesis
from hypothesis import HealthCheck, given, seed, settings, strategies as st

import opening_hours as oh_mod
from opening_hours import InvalidCoordinatesError, OpeningHours, ParserError, State, UnknownCountryError, validate

SEED = abs(int(os.environ.get("VERIF_SEED", "0") or 0)) % 1_000_000_000


class Oracle:
    def __init__(self):
        self.p = subprocess.Popen([OHV, "py-oracle"], stdin=subprocess.PIPE, stdout=subprocess.PIPE, text=True, bufsize=1)
        self.n = 0

    def ask(self, **req):
        self.n += 1
        req["id"] = self.n
        self.p.stdin.write(json.dumps(req) + "\n")
        self.p.stdin.flush()
        line = self.p.stdout.readline()
        if not line:
            raise RuntimeError("oracle died")
        resp = json.loads(line)
        assert resp["id"] == self.n
        return resp


ORACLE = Oracle()
CORE_ZONES = set(ORACLE.ask(op="zones")["result"])
ZONES = sorted(CORE_ZONES & zoneinfo.available_timezones())
ZONE_SET = set(ZONES)
NEW_ZONES = sorted(zoneinfo.available_timezones() - CORE_ZONES)
COUNTRIES = ORACLE.ask(op="countries")["result"]
EXPRS = sorted(
    subprocess.run([OHV, "gen-exprs", str(SEED), "1500"], capture_output=True, text=True, check=True).stdout.splitlines(),
    key=lambda s: (len(s), s),
)
INVALID_EXPRS = ["", "24/24", "Mo-Fr 25:00-26:00", "Mo 10:00", "Jan 32", "Mo \"abc", "week 54", "10:60-12:00", "pizza", "Mo-Fr 10:00-18:00 ;"]

STATS = {"examples": 0, "nontrivial": set(), "labels": {}, "samples": [], "oracle_calls": 0, "skipped": {}}


def label(name):
    STATS["labels"][name] = STATS["labels"].get(name, 0) + 1


class Violation(AssertionError):
    pass


# ---- strategies ---------------------------------------------------------------------------------

exprs = st.one_of(st.sampled_from(EXPRS), st.sampled_from(EXPRS), st.sampled_from(EXPRS), st.sampled_from(INVALID_EXPRS))
zones = st.one_of(st.none(), st.sampled_from(ZONES), st.sampled_from(["Europe/Paris", "America/New_York", "Australia/Lord_Howe", "Asia/Kathmandu", "UTC", "Pacific/Apia"]))
countries = st.one_of(st.none(), st.none(), st.sampled_from(COUNTRIES), st.sampled_from(["fr", "XX", "FRA", "", "U S", "ZZ"]))
valid_coords = st.one_of(
    st.tuples(st.floats(-90, 90), st.floats(-180, 180)),
    st.sampled_from([(48.8535, 2.34839), (40.7128, -74.0060), (-33.8688, 151.2093), (35.6762, 139.6503), (90.0, 0.0), (-90.0, 180.0), (0.0, -180.0), (64.1466, -21.9426)]),
)
invalid_coords = st.sampled_from([(91.0, 0.0), (0.0, 181.0), (float("nan"), 0.0), (0.0, float("nan")), (float("inf"), 0.0), (-90.000001, 0.0), (0.0, -180.5)])
coords = st.one_of(st.none(), st.none(), valid_coords, valid_coords, invalid_coords)
flags = st.sampled_from([None, True, False])

near = st.datetimes(min_value=dt.datetime(2018, 1, 1), max_value=dt.datetime(2032, 1, 1))
naive_dts = st.one_of(
    near, near, near, near, near, near, near,
    st.datetimes(min_value=dt.datetime(1990, 1, 1), max_value=dt.datetime(2100, 1, 1)),
    st.datetimes(min_value=dt.datetime(1, 1, 2), max_value=dt.datetime(9999, 12, 30)),
    st.sampled_from([dt.datetime(9999, 12, 31, 23, 59), dt.datetime(1900, 1, 1), dt.datetime(1899, 12, 31, 23, 59, 59), dt.datetime(2024, 3, 31, 2, 30), dt.datetime(2024, 10, 27, 2, 30), dt.datetime(2024, 11, 3, 1, 30)]),
)


@st.composite
def maybe_aware(draw):
    n = draw(naive_dts)
    if draw(st.integers(0, 9)) < 4:
        return n
    zone = draw(st.sampled_from(ZONES))
    return n.replace(tzinfo=zoneinfo.ZoneInfo(zone), fold=draw(st.integers(0, 1)))


def enc_time(t):
    if t is None:
        return None
    key = getattr(t.tzinfo, "key", None) if t.tzinfo is not None else None
    return {"naive": t.replace(tzinfo=None).isoformat(timespec="microseconds"), "tz": key, "fold": t.fold if t.tzinfo is not None else 0}


def dec_result(d):
    """oracle datetime -> comparable tuple"""
    if d is None:
        return None
    return (d["naive"], d["tz"], d["fold"])


def key_of(r):
    """binding datetime -> comparable tuple"""
    if r is None:
        return None
    if not isinstance(r, dt.datetime):
        raise Violation(f"expected a datetime or None, got {r!r}")
    key = None
    if r.tzinfo is not None:
        key = getattr(r.tzinfo, "key", None)
        if key is None:
            raise Violation(f"returned datetime {r!r} carries a tzinfo without zone key")
    return (r.replace(tzinfo=None).isoformat(timespec="microseconds"), key, r.fold if r.tzinfo is not None else 0)


STATE_NAMES = {"open": State.OPEN, "closed": State.CLOSED, "unknown": State.UNKNOWN}


def check_case(args):
    """One example. Raises Violation (or lets a PanicException through) on failure."""
    expr, tz_key, country, coord, auto_country, auto_timezone, op, t, end = (
        args["expr"], args["timezone"], args["country"], args["coords"], args["auto_country"], args["auto_timezone"], args["op"], args["time"], args["end"],
    )
    import math
    enc_coord = None if coord is None else [x if math.isfinite(x) else repr(x) for x in coord]
    ctor = dict(expr=expr, timezone=tz_key, country=country, coords=enc_coord, auto_country=auto_country, auto_timezone=auto_timezone)
    kwargs = {}
    if tz_key is not None:
        kwargs["timezone"] = zoneinfo.ZoneInfo(tz_key)
    if country is not None:
        kwargs["country"] = country
    if coord is not None:
        kwargs["coords"] = coord
    if auto_country is not None:
        kwargs["auto_country"] = auto_country
    if auto_timezone is not None:
        kwargs["auto_timezone"] = auto_timezone

    # a third of the examples pass the context arguments positionally, in the documented order
    # (oh, timezone, country, coords, auto_country, auto_timezone); a pure function of the example, so that replay agrees
    import zlib
    positional = zlib.crc32(repr(sorted(ctor.items(), key=lambda kv: kv[0])).encode()) % 3 == 0

    def build(text):
        if positional:
            return OpeningHours(text, kwargs.get("timezone"), kwargs.get("country"), kwargs.get("coords"),
                                True if auto_country is None else auto_country, True if auto_timezone is None else auto_timezone)
        return OpeningHours(text, **kwargs)

    if positional:
        label("constructor_called_with_positional_arguments")

    # validate(s) is true iff the constructor accepts s
    v = validate(expr)
    STATS["oracle_calls"] += 1
    exp_v = ORACLE.ask(op="validate", expr=expr)["result"]
    if v != exp_v:
        raise Violation(f"validate({expr!r}) = {v}, the core parser says {exp_v}")

    exp_ctor = ORACLE.ask(op="construct", **ctor)
    STATS["oracle_calls"] += 1
    try:
        oh = build(expr)
        raised = None
    except (ParserError, UnknownCountryError, InvalidCoordinatesError) as e:
        oh, raised = None, type(e).__name__
    if "core_panic" in exp_ctor:
        raise Violation(f"core panicked while building the context: {exp_ctor['core_panic']}")
    exp_err = exp_ctor.get("error")
    if exp_err == "UnknownZone":
        return False
    if raised != exp_err:
        raise Violation(f"OpeningHours({expr!r}, {kwargs}) raised {raised}, expected {exp_err}")
    if (raised == "ParserError") == v and coord is None and country is None:
        raise Violation(f"validate({expr!r}) = {v} but the constructor raised {raised}")
    if oh is None:
        label("constructor_rejects_" + raised)
        return True

    # str / repr / normalize
    s = str(oh)
    exp_s = ORACLE.ask(op="str", **ctor)["result"]
    if s != exp_s:
        raise Violation(f"str(OpeningHours({expr!r})) = {s!r}, the core prints {exp_s!r}")
    r = repr(oh)
    if not (r.startswith("OpeningHours(") and r.endswith(")")):
        raise Violation(f"repr = {r!r}")
    if all(32 <= ord(c) < 127 for c in s):
        try:
            lit = ast.literal_eval(r[len("OpeningHours("):-1])
        except Exception as e:  # noqa: BLE001
            raise Violation(f"repr {r!r} does not contain a Python string literal: {e}")
        if lit != s:
            raise Violation(f"repr {r!r} does not evaluate to str {s!r}")
    n = oh.normalize()
    exp_n = ORACLE.ask(op="normalize", **ctor)["result"]
    if str(n) != exp_n:
        raise Violation(f"str(normalize()) = {str(n)!r}, the core gives {exp_n!r}")
    # the printed form is accepted again and prints the same (C06 for the Python forms)
    again = build(s)
    if str(again) != s:
        raise Violation(f"OpeningHours(str(oh)) prints {str(again)!r}, oh prints {s!r}")

    # evaluation
    req = dict(ctor, op=op, time=enc_time(t), end=enc_time(end))
    exp = ORACLE.ask(**req)
    STATS["oracle_calls"] += 1
    if "core_panic" in exp:
        raise Violation(f"the core itself panicked: {exp['core_panic']}")
    input_trouble = "skip" in exp
    try:
        if op == "state":
            got = oh.state(t)
            flags_got = (oh.is_open(t), oh.is_closed(t), oh.is_unknown(t))
        elif op == "next_change":
            got = oh.next_change(t)
        else:
            it = oh.intervals(t, end) if end is not None else oh.intervals(t)
            got = []
            for item in it:
                got.append(item)
                if len(got) >= 40:
                    break
    except (TypeError, ValueError, OverflowError) as e:
        # conversion errors of the *input* are legal outcomes when the input has no core
        # equivalent (nonexistent / ambiguous local time, zone unknown to chrono-tz)
        if input_trouble:
            STATS["skipped"][exp["skip"]] = STATS["skipped"].get(exp["skip"], 0) + 1
            return False
        aware_inputs = [x for x in (t, end) if x is not None and x.tzinfo is not None]
        if aware_inputs and isinstance(e, (TypeError, ValueError)):
            raise Violation(f"{op}({t!r}, {end!r}) raised {type(e).__name__}: {e}, although the core evaluates this input: {exp}")
        raise Violation(f"{op}({t!r}) raised {type(e).__name__}: {e}")
    if input_trouble:
        STATS["skipped"][exp["skip"]] = STATS["skipped"].get(exp["skip"], 0) + 1
        return False
    expected = exp["result"]
    if op == "state":
        if got != STATE_NAMES[expected]:
            raise Violation(f"state({t!r}) = {got}, the core says {expected}")
        if flags_got != (expected == "open", expected == "closed", expected == "unknown"):
            raise Violation(f"(is_open, is_closed, is_unknown)({t!r}) = {flags_got}, the core state is {expected}")
    elif op == "next_change":
        if key_of(got) != dec_result(expected):
            raise Violation(f"next_change({t!r}) = {got!r} -> {key_of(got)}, the core gives {dec_result(expected)}")
    else:
        exp_items = [(dec_result(a), dec_result(b), STATE_NAMES[k], c) for a, b, k, c in expected]
        got_items = [(key_of(a), key_of(b), k, list(c)) for a, b, k, c in got]
        if got_items != exp_items:
            i = next(i for i in range(max(len(got_items), len(exp_items))) if (got_items[i:i + 1] != exp_items[i:i + 1]))
            raise Violation(f"intervals({t!r}, {end!r}) item #{i}: binding {got_items[i:i + 1]}, core {exp_items[i:i + 1]} ({len(got_items)} vs {len(exp_items)} items)")
    nontrivial = (t is not None and t.tzinfo is not None) or tz_key is not None or coord is not None
    if t is not None and t.tzinfo is not None:
        label("aware_input")
    if tz_key is not None:
        label("timezone_context")
    if coord is not None:
        label("coords_context")
    if country is not None:
        label("country_context")
    label("op_" + op)
    return nontrivial


def render(args):
    a = dict(args)
    if a.get("coords") is not None:
        a["coords"] = [repr(x) for x in a["coords"]]
    a["time"] = repr(a["time"])
    a["end"] = repr(a["end"])
    return json.dumps(a, default=str, sort_keys=True)


def to_replay(args):
    a = dict(args)
    if a.get("coords") is not None:
        a["coords"] = [repr(x) for x in a["coords"]]
    a["time"] = enc_time(a["time"])
    a["end"] = enc_time(a["end"])
    return a


def from_replay(a):
    def dec(x):
        if x is None:
            return None
        n = dt.datetime.fromisoformat(x["naive"])
        if x["tz"]:
            n = n.replace(tzinfo=zoneinfo.ZoneInfo(x["tz"]), fold=x["fold"])
        return n
    a = dict(a)
    a["time"] = dec(a["time"])
    a["end"] = dec(a["end"])
    if a.get("coords") is not None:
        a["coords"] = tuple(float(x) for x in a["coords"])
    return a


LAST_FAILURE = {}

SUN_EXPRS = ["sunrise-sunset", "dawn-dusk", "Mo-Su dawn-dusk", "(sunrise+01:00)-(sunset-00:30)", "sunset-sunrise unknown", "sunrise-12:00,14:00-sunset; PH off",
             "10:00-sunset", "dawn-10:00 open, 18:00-dusk unknown", "Sa,Su (sunrise-02:00)-(dusk+01:00)"]
CITIES = [(48.8535, 2.34839), (40.7128, -74.0060), (-33.8688, 151.2093), (35.6762, 139.6503), (64.1466, -21.9426), (-54.8019, -68.3030), (1.3521, 103.8198), (19.4326, -99.1332)]
# zones with a repeated hour and the local day it happens on
FOLDS = [("Europe/Paris", dt.datetime(2024, 10, 27)), ("Europe/London", dt.datetime(2023, 10, 29)), ("America/New_York", dt.datetime(2024, 11, 3)),
         ("America/Sao_Paulo", dt.datetime(2018, 2, 18)), ("Australia/Sydney", dt.datetime(2024, 4, 7)), ("Atlantic/Azores", dt.datetime(2024, 10, 27)),
         ("Australia/Lord_Howe", dt.datetime(2024, 4, 7)), ("Asia/Tehran", dt.datetime(2021, 9, 22)), ("Pacific/Chatham", dt.datetime(2024, 4, 7))]
GAPS = [("Europe/Paris", dt.datetime(2024, 3, 31)), ("America/New_York", dt.datetime(2024, 3, 10)), ("Australia/Sydney", dt.datetime(2024, 10, 6)), ("Pacific/Apia", dt.datetime(2011, 12, 30))]
FOLD_EXPRS = ["10:00-02:30", "Mo-Su 02:15-02:45", "00:00-01:30", "18:00-24:30", "22:00-26:15 unknown", "01:00-01:45,02:10-02:50", "Mo-Su 00:00-03:00; PH off", "23:00-03:30 \"night\""]


@st.composite
def general_args(draw):
    return dict(expr=draw(exprs), timezone=draw(zones), country=draw(countries), coords=draw(coords), auto_country=draw(flags), auto_timezone=draw(flags),
                op=draw(st.sampled_from(["state", "state", "next_change", "intervals", "intervals"])), time=draw(maybe_aware()), end=draw(st.one_of(st.none(), maybe_aware())))


@st.composite
def sun_args(draw):
    """Sun-event expressions with coordinates under every combination of timezone / auto_* arguments."""
    day = draw(st.datetimes(min_value=dt.datetime(2019, 1, 1), max_value=dt.datetime(2030, 1, 1)))
    zone = draw(st.one_of(st.none(), st.sampled_from(["Europe/Paris", "America/New_York", "Asia/Tokyo", "UTC", "Australia/Sydney", "Africa/Abidjan"]), st.sampled_from(ZONES)))
    t = day
    if draw(st.booleans()):
        t = day.replace(tzinfo=zoneinfo.ZoneInfo(draw(st.sampled_from(ZONES))))
    return dict(expr=draw(st.sampled_from(SUN_EXPRS)), timezone=zone, country=draw(st.one_of(st.none(), st.sampled_from(COUNTRIES))), coords=draw(st.sampled_from(CITIES)),
                auto_country=draw(flags), auto_timezone=draw(flags), op=draw(st.sampled_from(["state", "next_change", "intervals"])), time=t, end=None)


_SWITCH = {}


def switch_instant(zone, day):
    """UTC instant (aware) of the offset change of `zone` within a day of `day`, to the minute."""
    key = (zone, day)
    if key not in _SWITCH:
        z = zoneinfo.ZoneInfo(zone)
        utc = dt.timezone.utc
        lo = (day - dt.timedelta(hours=30)).replace(tzinfo=utc)
        hi = (day + dt.timedelta(hours=40)).replace(tzinfo=utc)
        off = lambda u: u.astimezone(z).utcoffset()
        if off(lo) == off(hi):
            _SWITCH[key] = day.replace(tzinfo=utc)
        else:
            while hi - lo > dt.timedelta(minutes=1):
                mid = lo + (hi - lo) / 2
                mid = mid.replace(second=0, microsecond=0)
                if mid <= lo:
                    break
                if off(mid) == off(lo):
                    lo = mid
                else:
                    hi = mid
            _SWITCH[key] = hi
    return _SWITCH[key]


@st.composite
def transition_args(draw):
    """Bounds inside the repeated / skipped hour of a DST switch; context zone, input zone or both."""
    zone, day = draw(st.sampled_from(FOLDS + FOLDS + GAPS))
    start = day - dt.timedelta(hours=draw(st.integers(0, 30))) + dt.timedelta(minutes=draw(st.sampled_from([0, 10, 30, 45, 59])))
    start = start + dt.timedelta(hours=draw(st.integers(0, 8)))
    ctx_zone = draw(st.sampled_from([None, None, zone, "UTC"]))
    aware = draw(st.integers(0, 3))
    t = start
    if aware >= 1:
        t = start.replace(tzinfo=zoneinfo.ZoneInfo(zone if aware <= 2 else draw(st.sampled_from(ZONES))), fold=draw(st.integers(0, 1)))
    if aware == 3 and draw(st.integers(0, 3)) > 0:
        # an instant within the zone's own offset of the switch (located with zoneinfo: input generation only)
        z = zoneinfo.ZoneInfo(zone)
        switch = switch_instant(zone, day)
        reach = int(max(abs((day + dt.timedelta(days=s)).replace(tzinfo=z).utcoffset().total_seconds()) for s in (-2, 2)) // 60) + 45
        start = (switch + dt.timedelta(minutes=draw(st.integers(-reach, reach)))).astimezone(z).replace(tzinfo=None)
        # the same *instant* next to the switch, handed over in another zone - preferably one whose offset equals the
        # context zone's offset before or after the switch (S-C12-i confuses the two when they coincide)
        z = zoneinfo.ZoneInfo(zone)
        inst = start.replace(tzinfo=z, fold=draw(st.integers(0, 1)))
        cands = ["Europe/London", "Africa/Lagos", "America/Chicago", "UTC"]
        for probe in (day - dt.timedelta(days=2), day + dt.timedelta(days=2)):
            h = probe.replace(tzinfo=z).utcoffset().total_seconds() / 3600
            if h == int(h) and -12 <= h <= 14:
                name = "Etc/GMT" if h == 0 else f"Etc/GMT{-int(h):+d}"
                cands += [name, name]
        cands = [c for c in cands if c in ZONE_SET] or ["UTC"]
        t = inst.astimezone(zoneinfo.ZoneInfo(draw(st.sampled_from(cands))))
        ctx_zone = draw(st.sampled_from([zone, zone, zone, None, "UTC"]))
    end = None
    op = draw(st.sampled_from(["next_change", "intervals", "intervals", "state"]))
    if op == "intervals" and draw(st.booleans()):
        end = t + dt.timedelta(hours=draw(st.integers(1, 48)))
    return dict(expr=draw(st.sampled_from(FOLD_EXPRS)), timezone=ctx_zone, country=None, coords=None, auto_country=draw(flags), auto_timezone=draw(flags), op=op, time=t, end=end)


HOLIDAY_EXPRS = ["24/7; PH off", "PH", "Mo-Su 08:00-20:00; PH off", "SH", "PH,SH 10:00-12:00", "PH -1 day 08:00-12:00; PH off", "Mo-Fr 09:00-17:00; SH off \"holidays\""]


@st.composite
def holiday_args(draw):
    """PH / SH expressions under explicit and inferred countries; windows of weeks, so that several holidays are crossed."""
    start = draw(st.datetimes(min_value=dt.datetime(2019, 1, 1), max_value=dt.datetime(2029, 1, 1)))
    op = draw(st.sampled_from(["intervals", "intervals", "next_change", "state"]))
    end = start + dt.timedelta(days=draw(st.integers(20, 200))) if op == "intervals" else None
    return dict(expr=draw(st.sampled_from(HOLIDAY_EXPRS)), timezone=draw(st.sampled_from([None, None, "Europe/Paris", "UTC"])),
                country=draw(st.one_of(st.none(), st.sampled_from(["FR", "DE", "US", "GB", "JP", "NL", "IE", "MX", "DK", "BR", "AU"]), st.sampled_from(COUNTRIES))),
                coords=draw(st.one_of(st.none(), st.sampled_from(CITIES), st.sampled_from([(52.52, 13.405), (0.0, -30.0), (51.5072, -0.1276), (53.3498, -6.2603)]))),
                auto_country=draw(flags), auto_timezone=draw(flags), op=op, time=start, end=end)


BORDERS = ORACLE.ask(op="borders")["result"]


@st.composite
def border_args(draw):
    """Two places a few metres apart on either side of a border between countries or time zones (found by the oracle by
    bisection on the library's own lookup): everything inferred from `coords` must follow the exact coordinates, whatever
    was constructed before in this process."""
    pair = draw(st.sampled_from(BORDERS))
    place = tuple(pair[draw(st.sampled_from(["a", "b"]))])
    start = draw(st.datetimes(min_value=dt.datetime(2023, 1, 1), max_value=dt.datetime(2027, 1, 1)))
    op = draw(st.sampled_from(["intervals", "intervals", "next_change", "state"]))
    end = start + dt.timedelta(days=draw(st.integers(30, 250))) if op == "intervals" else None
    return dict(expr=draw(st.sampled_from(HOLIDAY_EXPRS + ["sunrise-sunset", "10:00-18:00; PH off"])), timezone=None, country=None, coords=place,
                auto_country=draw(st.sampled_from([None, True])), auto_timezone=draw(st.sampled_from([None, True, False])), op=op, time=start, end=end)


@st.composite
def long_text_args(draw):
    """Very long expressions, valid or not, made of multi-byte characters (error messages quote the input): the right
    exception, never a panic, whatever the length."""
    unit = draw(st.sampled_from(["é", "営", "–", "x", "🙂", "ß"]))
    n = draw(st.integers(300, 2300))
    shift = draw(st.sampled_from(["", "x", "xy", "xyz"]))
    kind = draw(st.integers(0, 6))
    if kind >= 4:
        # shorter texts in the places the binding's logger may quote (the binding installs pyo3_log, so the
        # library's warnings are formatted): a comment used as a selector label, Easter, odd day numbers
        m = draw(st.integers(1, 90))
        label = shift + unit * m
        expr = draw(st.sampled_from([
            f'"{label}":Mo-Fr 10:00-12:00',
            f'"{label}":10:00-12:00 "{label}"',
            f'Mo 08:00-09:00; "{label}":Sa,Su',
            f'easter -2 days-easter +1 day "{label}"',
            f'Jan 31-Feb 31 "{label}"',
        ]))
    elif kind == 0:
        expr = 'Mo-Fr 10:00-12:00 "' + shift + unit * n  # unbalanced quote
    elif kind == 1:
        expr = 'Mo-Fr 10:00-12:00 "' + shift + unit * n + '"'  # valid, long comment
    elif kind == 2:
        expr = "; ".join(f'{2000 + i} Mo-Fr 10:00-12:00 "ouvert – fermé à midi"' for i in range(draw(st.integers(10, 70)))) + "; " + shift + "§"
    else:
        expr = shift + unit * n
    return dict(expr=expr, timezone=None, country=None, coords=None, auto_country=None, auto_timezone=None, op="state", time=dt.datetime(2024, 5, 1, 11, 0), end=None)


@st.composite
def end_of_time_args(draw):
    """Windows reaching the last supported instants, with bounds given in zones other than the context's: the end of
    the supported range is reported as None whatever zone it was asked in."""
    ctx_zone = draw(st.sampled_from(["Europe/Paris", "Asia/Tokyo", "UTC", "Pacific/Kiritimati", "America/Los_Angeles", None]))
    coords_ = draw(st.sampled_from([None, (35.68, 139.69)])) if ctx_zone is None else None
    start = dt.datetime(9999, 12, draw(st.integers(29, 31)), draw(st.integers(0, 15)), draw(st.sampled_from([0, 30, 59])))
    end = dt.datetime(9999, 12, 31, draw(st.integers(16, 23)), draw(st.sampled_from([0, 30, 59])))
    za = draw(st.sampled_from([None, "UTC", "America/Los_Angeles", "Pacific/Pago_Pago", "Asia/Tokyo", "Europe/Paris"]))
    zb = draw(st.sampled_from([None, "UTC", "America/Los_Angeles", "Pacific/Pago_Pago", "Asia/Tokyo", "Europe/Paris"]))
    if za is not None:
        start = start.replace(tzinfo=zoneinfo.ZoneInfo(za))
    if zb is not None:
        end = end.replace(tzinfo=zoneinfo.ZoneInfo(zb))
    op = draw(st.sampled_from(["intervals", "intervals", "intervals", "next_change"]))
    return dict(expr=draw(st.sampled_from(["Mo-Fr 10:00-12:00", "24/7", "Jan-Nov; Dec off", "Mo-Su 00:00-24:00", "22:00-26:00 \"late\"", "Dec 31 unknown"])), timezone=ctx_zone, country=None, coords=coords_,
                auto_country=None, auto_timezone=None, op=op, time=start, end=end if (op == "intervals" and draw(st.integers(0, 3)) > 0) else None)


@st.composite
def mixed_args(draw):
    """Contexts without zone: start and end naive or aware independently (the result carries the zone of the input)."""
    start = draw(st.datetimes(min_value=dt.datetime(2020, 1, 1), max_value=dt.datetime(2028, 1, 1)))
    end = start + dt.timedelta(hours=draw(st.integers(1, 400)))
    za, zb = draw(st.sampled_from(ZONES)), draw(st.sampled_from(["Europe/Paris", "Asia/Tokyo", "America/New_York", "UTC"]))
    if draw(st.booleans()):
        start = start.replace(tzinfo=zoneinfo.ZoneInfo(za))
    if draw(st.booleans()):
        end = end.replace(tzinfo=zoneinfo.ZoneInfo(zb))
    op = draw(st.sampled_from(["intervals", "intervals", "next_change"]))
    coords_ = draw(st.sampled_from([None, None, (40.71, -74.0)]))
    return dict(expr=draw(st.sampled_from(["10:00-12:00", "Mo-Fr 08:00-18:00; Sa 09:00-13:00 unknown", "sunrise-sunset", "22:00-02:00 \"late\""])), timezone=None, country=None,
                coords=coords_, auto_country=draw(flags), auto_timezone=False if coords_ else draw(flags), op=op, time=start, end=end if op == "intervals" else None)


def run(tier):
    n_examples = 1500 if tier == "quick" else 40000

    @seed(SEED)
    @settings(max_examples=n_examples, database=None, deadline=None, derandomize=False, suppress_health_check=list(HealthCheck), print_blob=False)
    @given(args=st.one_of(general_args(), general_args(), general_args(), sun_args(), sun_args(), transition_args(), transition_args(), holiday_args(), mixed_args(), border_args(), long_text_args(), end_of_time_args()))
    def prop(args):
        args = dict(args)
        if args["op"] != "intervals":
            args["end"] = None
        STATS["examples"] += 1
        if args["expr"] in SUN_EXPRS:
            label("strategy_sun_events_with_coordinates")
        if args["expr"] in FOLD_EXPRS:
            label("strategy_dst_transition")
        if args["expr"] in HOLIDAY_EXPRS:
            label("strategy_holidays_country_vs_coords")
        if len(args["expr"]) > 300:
            label("strategy_very_long_text")
        if args["time"] is not None and args["time"].year == 9999 and args["time"].month == 12 and args["time"].day >= 29:
            label("strategy_last_days_of_9999")
        if args["coords"] is not None and any(tuple(args["coords"]) in (tuple(b["a"]), tuple(b["b"])) for b in BORDERS):
            label("strategy_places_on_both_sides_of_a_border")
        try:
            nontrivial = check_case(args)
        except BaseException as e:  # noqa: BLE001  (PanicException derives from BaseException)
            if isinstance(e, (KeyboardInterrupt, SystemExit)):
                raise
            LAST_FAILURE["args"] = args
            LAST_FAILURE["message"] = f"{type(e).__name__}: {e}"
            raise
        if nontrivial:
            STATS["nontrivial"].add(hashlib.sha1(render(args).encode()).hexdigest())
            if len(STATS["samples"]) < 6:
                STATS["samples"].append(render(args))

    start = time.time()
    violations = []
    try:
        prop()
    except BaseException as e:  # noqa: BLE001
        if isinstance(e, (KeyboardInterrupt, SystemExit)):
            raise
        if "args" not in LAST_FAILURE:
            print(f"INCONCLUSIVE: the C12 driver failed outside of an example: {type(e).__name__}: {e}")
            return 2
        violations.append((LAST_FAILURE["args"], LAST_FAILURE["message"]))
    wall = time.time() - start
    os.makedirs(os.path.join(VERIF_ROOT, "evidence"), exist_ok=True)

    # pinned replays
    replay_report = []
    known = read_known()
    known_lines = []
    rdir = os.path.join(VERIF_ROOT, "replays", "C12")
    for name in sorted(os.listdir(rdir)) if os.path.isdir(rdir) else []:
        if not name.endswith(".json"):
            continue
        rel = f"replays/C12/{name}"
        body = json.load(open(os.path.join(rdir, name)))
        try:
            check_case(from_replay(body["args"]))
            replay_report.append({"file": rel, "result": "pass"})
        except BaseException as e:  # noqa: BLE001
            if isinstance(e, (KeyboardInterrupt, SystemExit)):
                raise
            if rel in known:
                known_lines.append(f"KNOWN-FINDING: property=C12 {known[rel]}")
                replay_report.append({"file": rel, "result": "known-finding"})
            else:
                violations.append((from_replay(body["args"]), f"pinned replay {rel}: {type(e).__name__}: {e}"))
                replay_report.append({"file": rel, "result": "FAIL", "message": str(e)})

    paths = []
    for args, message in violations:
        d = os.path.join(VERIF_ROOT, "replays", "C12", "new")
        os.makedirs(d, exist_ok=True)
        body = {"property": "C12", "check": "binding", "args": to_replay(args), "rendered": render(args), "message": message}
        path = os.path.join(d, "binding-" + hashlib.sha1(render(args).encode()).hexdigest()[:12] + ".json")
        json.dump(body, open(path, "w"), indent=1, default=str)
        paths.append((os.path.relpath(path, VERIF_ROOT), message, render(args)))

    evidence = {
        "property_id": "C12",
        "tier": tier,
        "seed": SEED,
        "level": "exploration",
        "coverage": {
            "evaluations": STATS["examples"],
            "distinct_nontrivial": len(STATS["nontrivial"]),
            "oracle_comparisons": STATS["oracle_calls"],
            "rule": "Hypothesis examples: expression (1500 sentences from the harness generator for this seed + invalid ones) x timezone (None / any zone known to both CPython's zoneinfo and chrono-tz) x country (valid codes, near misses, None) x coords (valid incl. poles and antimeridian, invalid, None) x auto_country / auto_timezone in {None, True, False} x op (state + is_*, next_change, intervals with optional end) x datetime (naive or aware in any zone, fold 0/1; 2018-2032, 1990-2100, year 1..9999 and DST instants); a ninth of the examples come from a mixed naive/aware strategy (context without zone, start and end naive or aware independently), a ninth from a holiday strategy (PH / SH expressions x explicit country x coordinates in another country or at sea, windows of 20-200 days), a quarter from a sun-event strategy (9 sun expressions x 8 cities x timezone / auto_* combinations) and a quarter from a DST-transition strategy (expressions with bounds inside the repeated or skipped hour of 13 real transitions, zone in the context, in the input, or both): exception class, validate, str, repr (literal_eval), normalize, reparse of str, and the evaluation result are compared with `ohv py-oracle` (Rust core with the documented equivalent context) on (naive local fields, zone key, fold); non-trivial = aware datetime, or a timezone / coords context",
            "samples": STATS["samples"][:6] or ["(no non-trivial example)"],
            "labels": STATS["labels"],
            "skipped_inputs_without_core_equivalent": STATS["skipped"],
            "zones_in_both_databases": len(ZONES),
            "zones_unknown_to_chrono_tz": NEW_ZONES[:10],
            "pinned_replays": replay_report,
            "known_findings_reported": known_lines,
        },
        "assumptions": [
            "the oracle's reading of the constructor docstring is the documented equivalent context (a time zone plus coordinates gives accurate sun events whatever auto_timezone says)",
            "inputs without a core equivalent (nonexistent local times, zones unknown to chrono-tz) may be rejected with TypeError/ValueError; they are counted, not judged",
            "time=None (wall clock) is not compared",
        ],
        "wall_s": round(wall, 2),
        "violations": len(paths),
    }
    json.dump(evidence, open(os.path.join(VERIF_ROOT, "evidence", "C12.json"), "w"), indent=1)
    for line in known_lines:
        print(line)
    for path, message, rendered in paths:
        print(f"VIOLATION property=C12 replay={path}")
        print(f"  detail: {rendered} :: {message}")
    print(f"[C12:binding] examples={STATS['examples']} nontrivial={len(STATS['nontrivial'])} oracle_calls={STATS['oracle_calls']} wall={wall:.1f}s", file=sys.stderr)
    if paths:
        return 1
    print(f"OK property=C12 tier={tier} seed={SEED} wall={wall:.1f}s")
    return 0


def read_known():
    out = {}
    try:
        for line in open(os.path.join(VERIF_ROOT, "known_findings.txt")):
            if line.startswith("known:") and "property=C12" in line:
                head, _, text = line[len("known:"):].partition("::")
                for tok in head.split():
                    if tok.startswith("replay="):
                        out[tok[len("replay="):]] = text.strip()
    except FileNotFoundError:
        pass
    return out


def replay(path):
    body = json.load(open(path))
    args = from_replay(body["args"])
    try:
        check_case(args)
    except BaseException as e:  # noqa: BLE001
        if isinstance(e, (KeyboardInterrupt, SystemExit)):
            raise
        print(f"VIOLATION property=C12 replay={path}")
        print(f"  detail: {render(args)} :: {type(e).__name__}: {e}")
        return 1
    print(f"PASS C12 :: {render(args)}")
    return 0


if __name__ == "__main__":
    if len(sys.argv) >= 3 and sys.argv[1] == "run":
        sys.exit(run(sys.argv[2]))
    if len(sys.argv) >= 3 and sys.argv[1] == "replay":
        sys.exit(replay(sys.argv[2]))
    print(__doc__)
    sys.exit(2)
