//! Structured target: the bytes are decoded as a choice sequence by the same generators the
//! proptest driver uses, and the semantic oracles (C01 model, C02 stream, C06 round trip, C07
//! normalisation, C13 idempotence) run inside the target.
#![no_main]
use libfuzzer_sys::fuzz_target;

fuzz_target!(|data: &[u8]| {
    ohv::fuzz::consistency(data);
});
