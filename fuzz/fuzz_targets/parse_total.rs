//! C04, generator 1: coverage-guided byte-level fuzzing of `parse`; every accepted string is
//! printed, reparsed, normalised and evaluated (the totality predicate lives in the harness).
#![no_main]
use libfuzzer_sys::fuzz_target;

fuzz_target!(|data: &[u8]| {
    ohv::fuzz::parse_total(data);
});
